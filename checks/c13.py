"""C13 - rooted filesystems and mounts cannot be escaped by any path string (DESIGN.md 5, C13).

M  specs/Paths.tla: TLC enumerates every path string with <= 4 (quick) / <= 6 (thorough) segments over
   {"", ".", "..", "a", "b", "..a", "a.."} x absolute/relative x trailing separator and checks Confined,
   ResolveIsWalk, ServedByLongestPrefix, RefuseOutsideMounts ... over all base / mount / cwd layouts;
   every enumerated path is printed (generation).
G  harness/cmd/paths replays each printed path against the real code: os.ResolvePath, a VirtualOS with
   recording mounts (every FS method, both arguments of rename/symlink) and a real localfs.Filesystem on a
   temp tree with sentinel entries outside the base (18 method variants x 3 bases; paths with <= 4 / <= 5
   segments).  specs/PathsCheck.tla recomputes the expectation with the operators of Paths.tla, one case
   per TLC state, and prints MISMATCH lines.
V  random odd / Unicode segments (seeded), abstracted to segment classes, judged by the same operators.
A mismatch is re-executed (fresh driver run, fresh TLC run) before it is reported.
"""
import concurrent.futures
import json
import os
import re
import shutil
import threading

import vlib

ALPHABET = 7
FS_METHODS = 18


def parallel_tlc(cx, spec, envs, prefix, heap="3g", maxpar=None, timeout=6000):
    """Run one single-worker TLC per env (a chain of states does not parallelise inside TLC)."""
    if not maxpar:
        # every TLC process may grow to its heap limit: fit the parallelism to the memory that is free right now
        avail_gb = 16.0
        try:
            for ln in open("/proc/meminfo"):
                if ln.startswith("MemAvailable:"):
                    avail_gb = int(ln.split()[1]) / 1048576.0
        except OSError:
            pass
        gb = float(heap.rstrip("g")) + 1.0
        maxpar = max(2, min(vlib.NCPU - 2, 12, int(avail_gb * 0.8 / gb)))
    results = [None] * len(envs)
    errors = []
    sem = threading.Semaphore(maxpar)

    def work(k):
        with sem:
            try:
                results[k] = cx.tlc(spec, env=envs[k], workers=1, name="%s_%d" % (prefix, k), heap=heap, timeout=timeout)
            except Exception as e:  # noqa
                errors.append(e)
    ths = [threading.Thread(target=work, args=(k,)) for k in range(len(envs))]
    for t in ths:
        t.start()
    for t in ths:
        t.join()
    if errors:
        raise errors[0]
    for r in results:
        cx.tlc_must_pass(r, spec)
    return results


MISMATCH_RE = re.compile(r'^<<"MISMATCH", (-?\d+), "([a-z0-9]+)", (\d+), "(.*)">>$')


def mismatches_of(results):
    out = []
    for r in results:
        for ln in r.lines:
            m = MISMATCH_RE.match(ln.strip())
            if m:
                exp = m.group(4).replace('\\"', '"').replace('\\\\', '\\')
                out.append((int(m.group(1)), m.group(2), int(m.group(3)), exp))
    return out


def judge(cx, shard_paths, tree, prefix, heap="3g"):
    envs = [{"VERIF_CASES": p, "VERIF_TREE": tree} for p in shard_paths]
    return mismatches_of(parallel_tlc(cx, "PathsCheck", envs, prefix, heap=heap))


def render(c):
    if "text" in c:
        return c["text"]
    return ("/" if c["abs"] else "") + "/".join(c["segs"]) + ("/" if c["trail"] else "")


def nontrivial(c):
    return any(s in ("", ".", "..") for s in c["segs"]) or (c["trail"] and len(c["segs"]) > 0)


def fast_dir(cx):
    """Directory for the real temp trees of the localfs leg: tmpfs when there is one (the scratch
    directory's filesystem is mounted with synchronous discard, which makes unlink slow), else scratch."""
    shm = "/dev/shm"
    if os.path.isdir(shm) and os.access(shm, os.W_OK):
        d = os.path.join(shm, "verif-" + os.path.basename(cx.work))
        try:
            os.makedirs(d, exist_ok=True)
            return d, True
        except OSError:
            pass
    d = cx.path("host")
    os.makedirs(d, exist_ok=True)
    return d, False


def observed_of(row, leg, k):
    o = row[leg][k - 1]
    return o


def run(cx):
    cx.level = "model_checking"
    drv = cx.go_build("paths")
    quick = cx.quick()
    maxsegs = 4 if quick else 6
    fsmax = 4 if quick else 5
    nrand = 3000 if quick else 40000
    work, is_tmpfs = fast_dir(cx)
    try:
        if cx.replay:
            _replay(cx, drv, work)
        else:
            _run(cx, drv, quick, maxsegs, fsmax, nrand, work)
    finally:
        if is_tmpfs:
            shutil.rmtree(work, ignore_errors=True)


def _run(cx, drv, quick, maxsegs, fsmax, nrand, work):
    # ---- leg M: exhaustive model checking of the specification + generation of the paths
    r = cx.tlc("Paths", cfg="Paths.cfg" if quick else "PathsThorough.cfg", workers=min(vlib.NCPU, 8),
               heap="6g", timeout=6000)
    cx.tlc_must_pass(r, "Paths")
    pat = re.compile(r'^<<"PATH", (TRUE|FALSE), (TRUE|FALSE), <<(.*)>>>>$')
    cases = []
    for ln in r.lines:
        m = pat.match(ln.strip())
        if m:
            cases.append({"id": len(cases) + 1, "abs": m.group(1) == "TRUE", "trail": m.group(2) == "TRUE",
                          "segs": json.loads("[" + m.group(3) + "]")})
    want = 4 * sum(ALPHABET ** n for n in range(maxsegs + 1))
    if len(cases) != want or r.distinct != want or len(set((c["abs"], c["trail"], tuple(c["segs"])) for c in cases)) != want:
        raise vlib.Inconclusive("leg M enumerated %d states / printed %d paths, expected %d" % (r.distinct, len(cases), want))
    m_states = r.distinct
    cx.log("leg M: %d paths enumerated and checked against all layouts" % want)

    tree = cx.path("tree.json")
    cx.run([drv, "tree", "-work", work, "-out", tree])

    # ---- leg G: replay every enumerated path on the real code, judge with PathsCheck
    enum_in = cx.path("enum.ndjson")
    vlib.write_ndjson(enum_in, cases)
    nsh = 14 if quick else 48
    enum_out = cx.path("enum_obs")
    cx.run([drv, "replay", "-in", enum_in, "-out", enum_out, "-work", work, "-fsmax", str(fsmax),
            "-shards", str(nsh)], timeout=6000)
    enum_shards = ["%s.shard%d.ndjson" % (enum_out, k) for k in range(nsh)]
    cx.log("leg G: replayed %d paths (localfs leg for <= %d segments)" % (len(cases), fsmax))
    mism = [("enum", m) for m in judge(cx, enum_shards, tree, "g")]

    # ---- leg V: random odd / Unicode segments
    rand_in = cx.path("rand.ndjson")
    cx.run([drv, "gen", "-seed", str(cx.seed), "-n", str(nrand), "-out", rand_in])
    rcases = vlib.read_ndjson(rand_in)
    vsh = 10 if quick else 16
    rand_out = cx.path("rand_obs")
    cx.run([drv, "replay", "-in", rand_in, "-out", rand_out, "-work", work, "-shards", str(vsh)], timeout=6000)
    rand_shards = ["%s.shard%d.ndjson" % (rand_out, k) for k in range(vsh)]
    mism += [("rand", m) for m in judge(cx, rand_shards, tree, "v")]
    cx.log("leg V: %d random paths replayed and judged; %d mismatching observations so far" % (len(rcases), len(mism)))

    # ---- leg R: every base spelled RELATIVE to the working directory (".", "./", "a/..", "./."): the driver changes
    # directory, so each process has one worker; read-only operations only (the working directory must stay valid)
    rel_cases = [c for c in cases if len(c["segs"]) <= min(fsmax, 4)] + rcases[:(300 if quick else 3000)]
    rel_cases = [dict(c, id=n + 1) for n, c in enumerate(rel_cases)]
    nrel = 8 if quick else 14
    rel_ins, rel_outs = [], []
    for k in range(nrel):
        rel_ins.append(cx.path("rel_in%d.ndjson" % k))
        rel_outs.append(cx.path("rel_obs%d.ndjson" % k))
        vlib.write_ndjson(rel_ins[k], rel_cases[k::nrel])
    with concurrent.futures.ThreadPoolExecutor(max_workers=nrel) as ex:
        futs = [ex.submit(cx.run, [drv, "replay", "-in", rel_ins[k], "-out", rel_outs[k], "-work", os.path.join(work, "rel%d" % k),
                                   "-fsmax", "99", "-relbase"], timeout=6000) for k in range(nrel)]
        for f in futs:
            f.result()
    mism += [("rel", m) for m in judge(cx, rel_outs, tree, "r")]
    cx.log("leg R: %d paths replayed on relatively spelled bases; %d mismatching observations so far" % (len(rel_cases), len(mism)))

    # ---- binding self-test: corrupted observations must be rejected by PathsCheck
    self_test(cx, enum_shards[0], tree)

    # ---- verdicts: re-execute every mismatching case before reporting it
    by_case = {}
    for src, (cid, leg, k, exp) in mism:
        by_case.setdefault((src, cid), []).append((leg, k, exp))
    confirmed = 0
    if by_case:
        lookup = {"enum": {c["id"]: c for c in cases}, "rand": {c["id"]: c for c in rcases}, "rel": {c["id"]: c for c in rel_cases}}
        keys = sorted(by_case)
        chosen = pick_representatives(keys, by_case, 40)
        re_in = cx.path("recheck.ndjson")
        rows = []
        for n, (src, cid) in enumerate(chosen):
            c = dict(lookup[src][cid])
            c["id"] = n + 1
            rows.append(c)
        vlib.write_ndjson(re_in, rows)
        re_out = cx.path("recheck_obs.ndjson")
        cx.run([drv, "replay", "-in", re_in, "-out", re_out, "-work", work, "-j", "1"] + (["-relbase"] if any(sc == "rel" for sc, _ in chosen) else []))
        obs = {o["id"]: o for o in vlib.read_ndjson(re_out)}
        again = {}
        for (cid, leg, k, exp) in judge(cx, [re_out], tree, "recheck"):
            again.setdefault(cid, []).append((leg, k, exp))
        for n, (src, cid) in enumerate(chosen):
            c = rows[n]
            if n + 1 not in again:
                cx.notes.append("mismatch on %r (%s) was not reproduced" % (render(c), src))
                continue
            confirmed += 1
            items = again[n + 1]
            leg, k, exp = items[0]
            o = obs[n + 1][leg][k - 1]
            cx.violation("path %r: %s leg, real code disagrees with Paths.tla: expected %s observed %s (%d disagreeing observations for this path)" % (
                render(c), leg, exp, json.dumps(o, sort_keys=True)[:300], len(items)),
                {"leg": leg, "path": render(c), "case": c,
                 "disagreements": [{"leg": l2, "index": k2, "expected": json.loads(e2), "observed": obs[n + 1][l2][k2 - 1]}
                                   for (l2, k2, e2) in items[:10]],
                 "all_mismatching_cases": len(by_case)})
        if not confirmed:
            raise vlib.Inconclusive("%d mismatching cases, none reproduced on re-execution" % len(by_case))

    # ---- coverage
    nfs_paths = sum(1 for c in cases if len(c["segs"]) <= fsmax)
    allc = cases + rcases
    distinct_nt = len(set(render(c) for c in allc if nontrivial(c)))
    evaluations = len(cases) * (3 + 15 * 16 + 2) + nfs_paths * 3 * FS_METHODS + len(rcases) * (3 + 15 * 16 + 2 + 3 * FS_METHODS)
    for c in (cases[len(cases) // 3], cases[-1], rcases[0], rcases[len(rcases) // 2]):
        cx.sample({"path": render(c), "segs": c["segs"], "abs": c["abs"], "trail": c["trail"]})
    cx.cover.update({
        "paths_enumerated": len(cases),
        "paths_random": len(rcases),
        "paths_with_localfs_leg": nfs_paths + len(rcases),
        "paths_on_relatively_spelled_bases": len(rel_cases),
        "evaluations": evaluations,
        "distinct_nontrivial": distinct_nt,
        "traces_validated_against_impl": len(cases) + len(rcases),
        "spec_states_leg_M": m_states,
        "mismatching_cases": len(by_case),
        "exhaustive": True,
        "rule": "leg M/G: ALL path strings with <= %d segments over {'', '.', '..', 'a', 'b', '..a', 'a..'} x absolute/relative x "
                "trailing separator, enumerated by TLC (exhaustive), each replayed on os.ResolvePath (3 bases), on a VirtualOS with "
                "recording mounts (5 mount tables x 3 cwds x 14 FS methods, both arguments of rename/symlink; MkdirTemp pattern) and, for <= %d segments, "
                "on a real localfs.Filesystem (3 bases x 18 method variants) over a temp tree with sentinels outside the base; "
                "leg R: the enumerated paths with <= 4 segments and a sample of the random ones on the same three bases spelled relative to "
                "the working directory ('.', './', 'a/..', './.'; read-only methods); "
                "leg V: %d seeded random paths with odd/Unicode segments (not exhaustive); one evaluation = one operation on the real "
                "code judged by PathsCheck.tla; non-trivial = the string contains a '.', '..' or empty segment or a trailing separator"
                % (maxsegs, fsmax, len(rcases)),
    })
    cx.assumptions += [
        "symbolic links that already exist inside a base are not modelled (the temp tree contains none; Symlink itself is checked)",
        "an unrooted localfs (base '' or '/') confines nothing by design; it is covered only through os.ResolvePath with base '/'",
        "segments are abstracted to classes in leg V (\"\", \".\", \"..\", layout names, other names, other names beginning with ..)",
        "Paths.tla permits refusal of names whose cleaned form begins with the characters '..' (DESIGN 8.2)",
    ]


def _replay(cx, drv, work):
    """bin/check C13 --replay replays/C13-*.json: one recorded case through driver and PathsCheck."""
    c = dict(json.load(open(cx.replay))["case"]["case"])
    c["id"] = 1
    tree = cx.path("tree.json")
    cx.run([drv, "tree", "-work", work, "-out", tree])
    inp, out = cx.path("replay_in.ndjson"), cx.path("replay_obs.ndjson")
    vlib.write_ndjson(inp, [c])
    cx.run([drv, "replay", "-in", inp, "-out", out, "-work", work, "-j", "1", "-relbase"])
    obs = vlib.read_ndjson(out)[0]
    items = judge(cx, [out], tree, "replay")
    cx.cover.update({"evaluations": 1, "distinct_nontrivial": 1 if nontrivial(c) else 0, "traces_validated_against_impl": 1,
                     "rule": "replay of one recorded case", "exhaustive": False})
    if not items:
        cx.log("replay: path %r conforms to Paths.tla on the current tree" % render(c))
        return
    _, leg, k, exp = items[0]
    cx.violation("path %r: %s leg, real code disagrees with Paths.tla: expected %s observed %s" % (
        render(c), leg, exp, json.dumps(obs[leg][k - 1], sort_keys=True)[:300]),
        {"leg": leg, "path": render(c), "case": c,
         "disagreements": [{"leg": l2, "index": k2, "expected": json.loads(e2), "observed": obs[l2][k2 - 1]}
                           for (_, l2, k2, e2) in items[:10]]})


def pick_representatives(keys, by_case, limit):
    """At most `limit` cases, preferring one per (leg, expected-kind) signature, shortest paths first."""
    seen = set()
    first, rest = [], []
    for key in keys:
        leg, k, exp = by_case[key][0]
        sig = (key[0], leg, exp[:12])
        if sig not in seen:
            seen.add(sig)
            first.append(key)
        else:
            rest.append(key)
    return (first + rest)[:limit]


def self_test(cx, shard, tree):
    """8.4: feed deliberately wrong observations; PathsCheck must flag every one of them."""
    rows = [r for r in vlib.read_ndjson(shard)[:400] if r["fs"]]
    bad = []

    def take(pred, mutate):
        for r in rows:
            if pred(r):
                c = json.loads(json.dumps(r))
                c["id"] = len(bad) + 1
                mutate(c)
                bad.append(c)
                return
        raise vlib.Inconclusive("self-test: no suitable row")
    # (1) ResolvePath result with a component dropped, (2) a mount serving with a wrong relative path,
    # (3) a refusal where a mount must serve, (4) an operation touching a location outside the base,
    # (5) a refused path that touched something, (6) an operation acting on a sibling location
    take(lambda r: r["rp"][2]["ok"] and len(r["rp"][2]["segs"]) > 2, lambda c: c["rp"][2]["segs"].pop())
    take(lambda r: r["vos"][0]["outs"][0]["ok"], lambda c: c["vos"][0]["outs"][0]["rel"].append("x"))
    take(lambda r: r["vos"][0]["outs"][0]["ok"], lambda c: c["vos"][0]["outs"][0].update({"ok": False, "m": [], "rel": []}))
    take(lambda r: r["fs"][20]["t"], lambda c: c["fs"][20]["t"].append(["<OUT>", "b"]))
    take(lambda r: not r["rp"][1]["ok"], lambda c: c["fs"][19].update({"t": [["tmp", "b"]], "e": False}))
    take(lambda r: r["fs"][18]["t"] == [["tmp", "b"]], lambda c: c["fs"][18].update({"t": [["tmp", "..a"]]}))
    # (7) a rename across mounts that was served, (8) a same-mount rename served with a wrong second location
    take(lambda r: any(not o["ok"] for o in r["vos2"]),
         lambda c: [o for o in c["vos2"] if not o["ok"]][0].update({"ok": True, "m": [], "r1": ["zk"], "r2": ["x"]}))
    take(lambda r: any(o["ok"] for o in r["vos2"]), lambda c: [o for o in c["vos2"] if o["ok"]][0]["r2"].append("x"))
    p = cx.path("selftest.ndjson")
    vlib.write_ndjson(p, bad)
    flagged = set(m[0] for m in judge(cx, [p], tree, "selftest"))
    if flagged != set(range(1, len(bad) + 1)):
        raise vlib.Inconclusive("self-test: PathsCheck flagged %s of %d corrupted observations" % (sorted(flagged), len(bad)))
    cx.cover["negative_self_tests"] = len(bad)
