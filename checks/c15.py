"""C15 - equality, ordering and hashing of values obey their algebraic laws (DESIGN.md 5, C15).

Spec: specs/Values.tla (Equals, Compare, HashKey, Truthy, Contains, Sorted, SetOf over tagged
records; numeric scalars are ranks in the exact merged order computed by the driver with math/big).
M: ValuesLaws (Mode "spec": every law of the property over all pairs and triples of the universe U)
   and ValuesSeq (every list of <= K values of the sub-universe as sort / set / list input);
   negative self-test: with Rounded = TRUE (int vs float through float64(int)) both must report.
G: harness/cmd/values observes every ordered pair, every value and every sort/set input of U on
   the real code, through the public object API and through scripts; ValuesCheck (one case per TLC
   state, sharded) re-computes the expectation; ValuesLaws (Mode "obs") checks the laws directly on
   the observed relations.
V: the same two checks on a seeded random universe (U's numeric scalars + random values).
A disagreement is re-observed on the real code (values replay) before it becomes a verdict.
"""
import json
import os
import re
import threading

import vlib
import langlib

LAW_RE = re.compile(r'^<<"LAW", "(\w+)", "([\w-]+)", (\d+), (\d+), (\d+)>>$')
MIS_RE = re.compile(r'^<<"MISMATCH", (\d+), "(\w+)", "(\w+)", (-?\d+), (-?\d+)>>$')
MISSEQ_RE = re.compile(r'^<<"MISMATCHSEQ", (\d+), "(\w+)", "(\w+)", "(.*)">>$')
SEQLAW_RE = re.compile(r'^<<"SEQLAW", (\d+), "(\w+)", "([\w-]+)">>$')
SPECSEQLAW_RE = re.compile(r'^<<"SEQLAW", "spec", "([\w-]+)", (.*)>>$')
UNSPEC_RE = re.compile(r'^<<"UNSPEC", (\d+)>>$')
LOCK = threading.Lock()


def parallel_tlc(cx, spec, env, paths, prefix):
    results = [None] * len(paths)
    errors = []

    def work(k):
        try:
            e = dict(env)
            e["VERIF_CASES"] = paths[k]
            results[k] = cx.tlc(spec, env=e, workers=1, name="%s_%d" % (prefix, k), heap="2g")
        except Exception as ex:  # noqa
            errors.append(ex)
    ths = [threading.Thread(target=work, args=(k,)) for k in range(len(paths))]
    for t in ths:
        t.start()
    for t in ths:
        t.join()
    if errors:
        raise errors[0]
    for r in results:
        cx.tlc_must_pass(r, spec)
    return results


def spec_leg(cx, upath, dummy):
    """Leg M: the specification satisfies the laws; the pre-fix rounding semantics does not."""
    env = {"VERIF_U": upath, "VERIF_OBS": dummy}
    r = cx.tlc("ValuesLaws", env=env, workers=8, name="laws_spec", coverage=False)
    cx.tlc_must_pass(r, "ValuesLaws (spec)")
    bad = [ln for ln in r.lines if LAW_RE.match(ln.strip())]
    if bad:
        raise vlib.Inconclusive("Values.tla itself violates a law of the property: %s" % bad[:3])
    pair_states = r.distinct
    r = cx.tlc("ValuesSeq", env=env, workers=8, name="seq_spec")
    cx.tlc_must_pass(r, "ValuesSeq (spec)")
    bad = [ln for ln in r.lines if SPECSEQLAW_RE.match(ln.strip())]
    if bad:
        raise vlib.Inconclusive("Values.tla itself violates a sort/set law of the property: %s" % bad[:3])
    seq_states = r.distinct
    # negative self-test: the laws are able to fail
    r = cx.tlc("ValuesLaws", cfg="ValuesLawsRounded.cfg", env=env, workers=8, name="laws_rounded")
    cx.tlc_must_pass(r, "ValuesLaws (rounded)")
    laws = set(m.group(2) for m in (LAW_RE.match(ln.strip()) for ln in r.lines) if m)
    if not {"eq-transitive", "order-transitive"} <= laws:
        raise vlib.Inconclusive("negative self-test: the rounding semantics should break eq-/order-transitive, got %s" % sorted(laws))
    r = cx.tlc("ValuesSeq", cfg="ValuesSeqRounded.cfg", env=env, workers=8, name="seq_rounded")
    cx.tlc_must_pass(r, "ValuesSeq (rounded)")
    if not any(SPECSEQLAW_RE.match(ln.strip()) for ln in r.lines):
        raise vlib.Inconclusive("negative self-test: the rounding semantics should break a sort law")
    return pair_states, seq_states


class Leg:
    def __init__(self, name, upath):
        self.name = name
        self.upath = upath
        self.u = json.load(open(upath))
        self.n = self.u["n"]
        self.vals = self.u["vals"]

    def key(self, i):
        return self.vals[i - 1]["key"]

    def typ(self, i):
        return self.vals[i - 1]["t"]

    def show(self, i):
        v = self.vals[i - 1]
        return v["src"] or v["key"]


def describe_case(leg, c):
    if c["k"] == "pair":
        return "a=%s b=%s" % (leg.show(c["a"]), leg.show(c["b"]))
    if c["k"] == "un":
        return "a=%s" % leg.show(c["a"])
    return "xs=[%s]" % ", ".join(leg.show(x) for x in c["xs"])


def conform_leg(cx, drv, leg, nseq, stats, failures):
    """Leg G / V on one universe: observe, conform, laws on the observed relations."""
    cases_path = cx.path(leg.name + "_cases.ndjson")
    obs_path = cx.path(leg.name + "_obs.json")
    p = cx.run([drv, "eval", "-u", leg.upath, "-cases", cases_path, "-obs", obs_path, "-nseq", str(nseq),
                "-seed", str(cx.seed), "-workers", str(min(vlib.NCPU, 8 if cx.quick() else 14))], timeout=1500)
    cx.log("%s: %s" % (leg.name, p.stdout.decode().strip()))
    cases = vlib.read_ndjson(cases_path)
    by_id = {c["id"]: c for c in cases}
    env = {"VERIF_U": leg.upath, "VERIF_OBS": obs_path}
    nsh = min(vlib.NCPU, 6 if cx.quick() else 12)
    paths = langlib.shard_cases(cx, cases, nsh, leg.name)
    results = parallel_tlc(cx, "ValuesCheck", env, paths, "chk_" + leg.name)
    bad = {}      # case id -> list of (signature, detail)
    unspec = set()
    for r in results:
        for ln in r.lines:
            ln = ln.strip()
            m = MIS_RE.match(ln)
            if m:
                cid, src, f, exp, obs = int(m.group(1)), m.group(2), m.group(3), int(m.group(4)), int(m.group(5))
                c = by_id[cid]
                ts = "%s,%s" % (leg.typ(c["a"]), leg.typ(c["b"])) if c["k"] == "pair" else leg.typ(c["a"])
                bad.setdefault(cid, []).append(("mismatch:%s:%s" % (f, ts),
                                                "%s.%s expected %d observed %d" % (src, f, exp, obs)))
                continue
            m = MISSEQ_RE.match(ln)
            if m:
                cid, src, f = int(m.group(1)), m.group(2), m.group(3)
                exp = m.group(4).replace('\\"', '"')
                bad.setdefault(cid, []).append(("mismatch:%s:seq" % f,
                                                "%s.%s expected %s observed %s" % (src, f, exp, json.dumps(by_id[cid][src][f]))))
                continue
            m = SEQLAW_RE.match(ln)
            if m:
                cid, src, law = int(m.group(1)), m.group(2), m.group(3)
                bad.setdefault(cid, []).append(("law:%s:seq" % law, "%s results violate %s" % (src, law)))
                continue
            m = UNSPEC_RE.match(ln)
            if m:
                unspec.add(int(m.group(1)))
    # laws on the observed relations
    r = cx.tlc("ValuesLaws", cfg="ValuesLawsObs.cfg", env=env, workers=8, name="laws_obs_" + leg.name, heap="6g")
    cx.tlc_must_pass(r, "ValuesLaws (obs)")
    lawhits = {}
    for ln in r.lines:
        m = LAW_RE.match(ln.strip())
        if m:
            src, law, a, b, c = m.group(1), m.group(2), int(m.group(3)), int(m.group(4)), int(m.group(5))
            trip = tuple(sorted(set(x for x in (a, b, c) if x)))
            lawhits.setdefault((law, trip), []).append((src, a, b, c))
    n = leg.n
    for (law, trip), hits in sorted(lawhits.items()):
        src, a, b, c = hits[0]
        ids = sorted(set((x - 1) * n + y for x in trip for y in trip))
        sig = "law:%s:%s" % (law, ",".join(sorted(set(leg.typ(x) for x in trip))))
        detail = "%s relations violate %s at a=%s b=%s%s" % (
            "/".join(sorted(set(h[0] for h in hits))), law, leg.show(a), leg.show(b),
            (" c=%s" % leg.show(c)) if c else "")
        failures.append({"leg": leg, "sig": sig, "detail": detail, "ids": ids, "by_id": by_id,
                         "values": [leg.key(x) for x in (a, b, c) if x]})
    for cid, items in sorted(bad.items()):
        c = by_id[cid]
        vals = [leg.key(x) for x in ([c["a"], c["b"]] if c["k"] == "pair" else [c["a"]] if c["k"] == "un" else c["xs"])]
        failures.append({"leg": leg, "sig": items[0][0], "detail": "%s: %s" % (describe_case(leg, c), "; ".join(d for _, d in items[:6])),
                         "ids": [cid], "by_id": by_id, "values": vals})
    with LOCK:
        if leg.name == "U":
            stats["antecedents"] = antecedents(leg, obs_path)
        kinds = {}
        for c in cases:
            kinds[c["k"]] = kinds.get(c["k"], 0) + 1
        stats["pairs"] += kinds.get("pair", 0)
        stats["values"] += kinds.get("un", 0)
        stats["seqs"] += kinds.get("seq", 0)
        stats["seqs_unspecified"] += len(unspec)
        stats["seqs_sorted_ok"] += sum(1 for c in cases if c["k"] == "seq" and c["api"]["sorted"]["ok"] == 1 and len(c["xs"]) >= 2)
        stats["conforming"] += len(cases) - len(bad)
        for c in cases:
            if c["k"] == "pair" and c["a"] != c["b"]:
                stats["distinct_pairs"].add((leg.key(c["a"]), leg.key(c["b"])))
    return cases


def antecedents(leg, obs_path):
    """How often the hypotheses of the laws were met by the observed relations (vacuity guard)."""
    o = json.load(open(obs_path))["api"]
    n = leg.n
    ty = [leg.typ(i) for i in range(1, n + 1)]
    eq, lt, inn, hk = o["eq"], o["lt"], o["in"], o["hk"]
    num = ("int", "float", "byte")
    same = [[ty[a] == ty[b] for b in range(n)] for a in range(n)]
    cnt = {
        "equal_pairs_of_distinct_representation": sum(1 for a in range(n) for b in range(n) if a != b and eq[a][b] == 1),
        "equal_same_type_pairs_of_distinct_representation": sum(
            1 for a in range(n) for b in range(n) if a != b and same[a][b] and eq[a][b] == 1),
        "eq_transitivity_triples_distinct": sum(
            1 for a in range(n) for b in range(n) if a != b and same[a][b] and eq[a][b] == 1
            for c in range(n) if c != a and c != b and same[b][c] and eq[b][c] == 1),
        "ordered_same_type_pairs": sum(1 for a in range(n) for b in range(n) if a != b and same[a][b] and lt[a][b] in (0, 1)),
        "unordered_list_pairs": sum(1 for a in range(n) for b in range(n) if ty[a] == "list" and same[a][b] and lt[a][b] == 2),
        "le_transitivity_triples_distinct": sum(
            1 for a in range(n) for b in range(n) if a != b and same[a][b] and o["le"][a][b] == 1
            for c in range(n) if c != a and c != b and same[b][c] and o["le"][b][c] == 1),
        "cross_type_numeric_pairs": sum(1 for a in range(n) for b in range(n)
                                        if ty[a] in num and ty[b] in num and ty[a] != ty[b]),
        "same_slot_pairs_of_distinct_representation": sum(1 for a in range(n) for b in range(n) if a != b and hk[a][b] == 1),
        "membership_true": sum(1 for a in range(n) for b in range(n) if inn[a][b] == 1),
        "membership_false": sum(1 for a in range(n) for b in range(n) if inn[a][b] == 0),
        "containers_empty": sum(1 for a in range(n) if o["len"][a] == 0),
        "containers_nonempty": sum(1 for a in range(n) if o["len"][a] > 0),
    }
    return cnt


def reproduce(cx, drv, f):
    """Re-observe the cases of a failure on the real code; True if every observation repeats."""
    leg = f["leg"]
    sub = [f["by_id"][i] for i in f["ids"]]
    inp = cx.path("replay_in.ndjson")
    out = cx.path("replay_out.ndjson")
    vlib.write_ndjson(inp, sub)
    cx.run([drv, "replay", "-u", leg.upath, "-in", inp, "-out", out])
    again = {c["id"]: c for c in vlib.read_ndjson(out)}
    return all(again[c["id"]]["api"] == c["api"] and again[c["id"]]["scr"] == c["scr"] for c in sub)


def run(cx):
    cx.level = "model_checking"
    drv = cx.go_build("values")
    quick = cx.quick()
    dummy = cx.path("noobs.json")
    with open(dummy, "w") as f:
        f.write('{"n":0}')

    # ---- the boundary universe U
    u_path = cx.path("U.json")
    cmd = [drv, "universe", "-kind", "U", "-k", "3" if quick else "4", "-out", u_path]
    if not quick:
        cmd.append("-thorough")
    p = cx.run(cmd)
    cx.log(p.stdout.decode().strip())
    leg_u = Leg("U", u_path)

    stats = {"pairs": 0, "values": 0, "seqs": 0, "seqs_unspecified": 0, "seqs_sorted_ok": 0, "conforming": 0,
             "distinct_pairs": set()}
    failures = []
    v_path = cx.path("V.json")
    p = cx.run([drv, "universe", "-kind", "V", "-seed", str(cx.seed), "-n", str(100 if quick else 280), "-k", "4",
                "-out", v_path])
    cx.log(p.stdout.decode().strip())
    leg_v = Leg("V", v_path)
    out = {}
    errors = []

    def guarded(name, fn):
        def body():
            try:
                out[name] = fn()
            except Exception as ex:  # noqa
                errors.append(ex)
        t = threading.Thread(target=body)
        t.start()
        return t
    # M: the specification and the laws;  G: every pair / value / sort-set input of U on the real code;
    # V: seeded random universe - the three legs run side by side
    ths = [guarded("spec", lambda: spec_leg(cx, u_path, dummy)),
           guarded("U", lambda: conform_leg(cx, drv, leg_u, -1, stats, failures)),
           guarded("V", lambda: conform_leg(cx, drv, leg_v, 1200 if quick else 30000, stats, failures))]
    for t in ths:
        t.join()
    if errors:
        raise errors[0]
    pair_states, seq_states = out["spec"]
    cases_u = out["U"]

    # ---- verdicts: classify by known finding, reproduce, report (one violation per signature)
    known = cx.known_findings()
    seen_sig = {}
    hit_known = set()
    for f in failures:
        kf = None
        for k in known:
            # a C15 finding carries witness = {"match": regex over the failure signature, "values": [keys]}
            pat = k.get("witness", {}).get("match")
            if pat and re.search(pat, f["sig"]):
                kf = k
        if kf is not None:
            if set(kf["witness"].get("values", [])) <= set(f["values"]) and f["leg"].name == "U":
                hit_known.add(kf["id"])
            continue
        seen_sig.setdefault(f["sig"], []).append(f)
    for k in known:
        if k["id"] in hit_known:
            cx.report_known(k)
        else:
            cx.notes.append("known finding %s: witness no longer fails" % k["id"])
    unreproduced = 0
    for sig, fs in sorted(seen_sig.items()):
        f = fs[0]
        if not reproduce(cx, drv, f):
            # an observation that differs once and not again (a worker cut short under load) decides nothing: a few
            # are noted, many make the run Inconclusive; never a violation
            unreproduced += 1
            cx.notes.append("disagreement not reproduced on re-observation: %s" % f["detail"][:300])
            if unreproduced > 3:
                raise vlib.Inconclusive("%d disagreements not reproduced on re-observation, e.g. %s" % (unreproduced, f["detail"][:300]))
            continue
        cx.violation("%s [%s universe %s; %d case(s) with this signature]" % (f["detail"], sig, f["leg"].name, len(fs)),
                     {"leg": f["leg"].name, "signature": sig, "values": f["values"],
                      "cases": [f["by_id"][i] for i in f["ids"]][:9],
                      "more": [g["detail"][:300] for g in fs[1:8]],
                      "universe_cmd": "values universe -kind %s -seed %d" % (f["leg"].name, cx.seed)})

    # vacuity guard (after the verdicts: a law's hypothesis that no observed pair meets can itself be the symptom of
    # a violation, e.g. equal values that no longer share a set slot)
    vac = [k for k, v in stats["antecedents"].items() if v == 0]
    if vac and not cx.violations:
        raise vlib.Inconclusive("vacuous laws on U: no instance of %s" % vac)

    big = {"i:9007199254740993", "f:4340000000000000", "l[i:9007199254740993]", "l[f:4340000000000000]"}
    picks = [c for c in cases_u if c["k"] == "pair" and c["a"] != c["b"]
             and {leg_u.key(c["a"]), leg_u.key(c["b"])} <= big][:3]
    picks += [c for c in cases_u if c["k"] == "seq" and len(set(c["xs"])) == 3 and c["api"]["sorted"]["ok"] == 1
              and len(set(leg_u.typ(x) for x in c["xs"])) >= 2][:2]
    for c in picks:
        cx.sample({"case": describe_case(leg_u, c), "api": c["api"], "scr": c["scr"]})
    evaluations = stats["pairs"] + stats["values"] + stats["seqs"]
    cx.cover.update({
        "universe_U": leg_u.n,
        "universe_V": leg_v.n,
        "spec_pair_states": pair_states,
        "spec_triples": leg_u.n ** 3,
        "spec_sort_set_inputs": seq_states,
        "evaluations": evaluations,
        "pairs_observed": stats["pairs"],
        "sort_set_inputs_observed": stats["seqs"],
        "sort_inputs_sorted": stats["seqs_sorted_ok"],
        "sort_inputs_not_mutually_comparable": stats["seqs_unspecified"],
        "distinct_nontrivial": len(stats["distinct_pairs"]),
        "law_hypotheses_met_on_U": stats["antecedents"],
        "traces_validated_against_impl": stats["conforming"],
        "exhaustive": True,
        "rule": "U: fixed boundary universe (ints/floats around 0, 2^8, 2^53, 2^63, +-0.0, +-Inf, bytes, strings with "
                "multi-byte runes, bools, nil, nested and mixed-numeric lists, maps, sets, raised/unraised errors), "
                "closed under elements; ALL ordered pairs, all triples (laws) and all lists of <= K values of the "
                "sub-universe are enumerated (exhaustive = True refers to this part). V: U's numeric scalars plus "
                "seeded random values, all ordered pairs and random sort/set inputs. Every case is observed through "
                "the public object API and through scripts. distinct_nontrivial = distinct ordered pairs of values "
                "with different Go-level representation (type, exact int, float bits, ...)",
    })
    cx.assumptions += [
        "float NaN is excluded (property statement)",
        "numeric order oracle: ranks and the int->float64 rounding table are computed with math/big in the driver",
        "set membership is by (type, value): 1.0 in {1} is false by design (DESIGN.md 8.2); the representative kept "
        "by a set for == values is not compared",
        "sorted() of input that is not mutually comparable is outside the property (counted, not compared)",
        "list order is pinned as the implementation documents it (shorter lists first, then element-wise)",
    ]
