"""C18 - incremental (REPL-style) evaluation equals whole-program evaluation (DESIGN.md 5, C18).

Programs of C01's generator are split at statement boundaries into consecutive pieces; rejected inputs
(syntax error, undefined name, redeclaration, error inside a function body) and failing inputs (run-time
error after a side effect) are inserted.  The driver feeds the pieces to ONE compiler and ONE VM with the
REPL protocol (cmd/risor/repl.getEvaluator); PiecesCheck.tla threads Lang!ExecSeq through the pieces and
checks each piece's value, error, output, the final globals, and (leg M) that pieces mean what the
concatenated program means.  The operand stack must hold exactly the result after every piece.
"""
import json
import re

import vlib
import langlib


def run(cx):
    cx.level = "model_checking"
    lang = cx.go_build("lang")
    n = 1200 if cx.quick() else 25000
    out = cx.path("pieces.ndjson")
    cx.run([lang, "pieces-gen", "-seed", str(cx.seed * 1000 + 18), "-n", str(n), "-depth", "3", "-out", out], timeout=2400)
    rows = vlib.read_ndjson(out)
    # long history: the stack must not grow with the number of inputs
    longp = cx.path("long.ndjson")
    npieces = 1500 if cx.quick() else 5000
    vlib.write_ndjson(longp, [
        {"id": 0, "pieces": ["x := 0"] + ["x++"] * npieces + ["x"], "globals": ["x"]},
        {"id": 1, "pieces": ["x := 0"] + ["x + 1", "[][3]", "y := := 2"] * (npieces // 3) + ["x"], "globals": ["x"]},
        # failures that strike while operands are pending (list literal, call arguments, range loop, switch)
        {"id": 2, "pieces": ["x := 0"] + ["[1, 2, 3, 4, 5, 6, 7, 8, [][3]]", "print(1, 2, [][3])", "for _, v := range [1, 2] {\n[v, [][3]]\n}",
                                          "switch 1 {\ncase 1:\n[4, [][3]]\n}", "x + 0"] * (npieces // 5) + ["x"], "globals": ["x"]},
    ])
    longo = cx.path("long.out.ndjson")
    cx.run([lang, "pieces", "-in", longp, "-out", longo], timeout=1200)
    for r in vlib.read_ndjson(longo):
        res = r["res"]
        if res.get("k") != "done":
            raise vlib.Inconclusive("long history driver failed: %s" % str(res)[:200])
        ps = res["pieces"]
        if any("context deadline exceeded" in str(p_.get("msg", "")) for p_ in ps):
            raise vlib.Inconclusive("a long history ran out of time (the history's context ended): the machine is too loaded to decide")
        last = ps[-1]
        exp = npieces if r["id"] == 0 else 0
        bad = [i for i, p in enumerate(ps) if p.get("k") in ("raise", "gopanic") and "[][3]" not in r["pieces"][i]]
        if bad or last.get("k") != "ok" or last.get("v") != {"t": "int", "v": exp}:
            i = bad[0] if bad else len(ps) - 1
            cx.violation("a history of %d inputs does not behave like the whole program: input %d (%r) gave %s; final value %s (expected %d)" % (
                len(ps), i, r["pieces"][i], json.dumps(ps[i])[:200], json.dumps(last.get("v")), exp),
                {"leg": "long-history", "pieces": r["pieces"][:3] + ["..."], "first_bad_index": i, "bad": ps[i], "last": last})
    # ---- known findings: replay each pinned witness history (the last input must end as the finding says it should)
    for f in cx.known_findings():
        w = f.get("witness", {})
        if "pieces" not in w:
            continue
        wp, wo = cx.path("witness_%s.ndjson" % f["id"]), cx.path("witness_%s.out.ndjson" % f["id"])
        vlib.write_ndjson(wp, [{"id": 0, "pieces": w["pieces"], "globals": []}])
        cx.run([lang, "pieces", "-in", wp, "-out", wo], timeout=300)
        res = vlib.read_ndjson(wo)[0]["res"]
        last = (res.get("pieces") or [{}])[-1]
        if res.get("k") == "done" and last.get("k") == w["expected_last"]["k"] and last.get("v") == w["expected_last"].get("v"):
            cx.notes.append("known finding %s: witness no longer fails" % f["id"])
        else:
            cx.report_known(f)
    cases = []
    by_id = {}
    sp_bad = []
    skipped = 0
    npieces_total = 0
    nontriv = set()
    for r in rows:
        res = r["res"]
        if res.get("k") != "done":
            skipped += 1
            cx.notes.append("case %s: driver result %s" % (r["id"], str(res)[:120]))
            continue
        obs = []
        for p in res["pieces"]:
            o = {"k": p["k"], "out": p["out"]}
            if p["k"] == "ok":
                o["v"] = p["v"]
                if p.get("sp") != 0:
                    sp_bad.append((r["id"], p.get("sp")))
            elif p["k"] == "raise":
                o["v"] = p["v"]
                o["msgcps"] = p["msgcps"]
            obs.append(o)
        npieces_total += len(obs)
        globs = [{"n": g, "has": g in res["globals"], "v": res["globals"].get(g, {"t": "nil"})} for g in r["globals"]]
        pieces = [{k: v for k, v in p.items() if k != "src"} for p in r["pieces"]]
        for p in pieces:
            if p["kind"] in ("rejected", "interrupted", "exhausted"):
                p.update({"ast": [], "hoist": [], "declares": False})
        cases.append({"id": r["id"], "pieces": pieces, "obs": obs, "globals": globs, "forward": r["forward"]})
        by_id[r["id"]] = r
        if any(p["kind"] in ("rejected", "interrupted", "exhausted") for p in pieces) or len(pieces) > 2:
            nontriv.add(json.dumps([p.get("src") for p in r["pieces"]]))
    cx.alive(skipped, len(rows), "incremental histories")
    mism, unknown = langlib.tlc_conform(cx, cases, spec="PiecesCheck", prefix="pieces", strip=())
    # PiecesCheck prints <<"MISMATCH", id, piece, json>>: parse separately
    mism3 = []
    specdiff = []
    for d in sorted(set(x for x in __import__("os").listdir(cx.work) if x.startswith("tlc_pieces_"))):
        for ln in open(cx.path(d, "tlc.out")):
            m = re.match(r'^<<"MISMATCH", (\d+), (\d+), "(.*)">>$', ln.strip())
            if m:
                mism3.append((int(m.group(1)), int(m.group(2)), m.group(3).replace('\\"', '"')))
            m = re.match(r'^<<"SPECDIFF", (\d+), ', ln.strip())
            if m:
                specdiff.append(int(m.group(1)))
    if specdiff:
        raise vlib.Inconclusive("spec lemma RunPieces = RunProgram fails inside Lang.tla for cases %s" % specdiff[:5])
    # re-execute disagreeing cases once
    if mism3:
        ids = sorted(set(i for i, _, _ in mism3))[:100]
        rein = cx.path("re.ndjson")
        vlib.write_ndjson(rein, [{"id": i, "pieces": [p["src"] for p in by_id[i]["pieces"]], "globals": by_id[i]["globals"]} for i in ids])
        reout = cx.path("re.out.ndjson")
        cx.run([lang, "pieces", "-in", rein, "-out", reout])
        again = {r["id"]: r["res"] for r in vlib.read_ndjson(reout)}
        seen = set()
        for i, j, specjs in mism3:
            if i in seen or i not in again:
                continue
            seen.add(i)
            strip = lambda ps: [{k: v for k, v in p.items() if k not in ("msg",)} for p in ps]
            if strip(again[i].get("pieces", [])) != strip(by_id[i]["res"]["pieces"]):
                cx.notes.append("case %d: observation not reproduced (ignored)" % i)
                continue
            srcs = [p["src"] for p in by_id[i]["pieces"]]
            what = ("piece %d %r" % (j, srcs[j - 1][:150])) if j > 0 else "final globals"
            obs = by_id[i]["res"]["pieces"][j - 1] if j > 0 else by_id[i]["res"]["globals"]
            cx.violation("incremental evaluation differs from Lang.tla at %s: observed=%s specified=%s; inputs=%s" % (
                what, json.dumps(obs)[:250], specjs[:250], json.dumps(srcs)[:400]),
                {"leg": "pieces", "pieces": srcs, "index": j, "observed": by_id[i]["res"], "specified": specjs})
    for cid, sp in sp_bad[:5]:
        r = by_id[cid]
        cx.violation("a finished input leaves %s values on the operand stack instead of exactly its result: inputs=%s" % (
            sp + 1 if isinstance(sp, int) else sp, json.dumps([p["src"] for p in r["pieces"]])[:400]),
            {"leg": "stack", "pieces": [p["src"] for p in r["pieces"]], "sp": sp})
    for r in rows[:2]:
        cx.sample({"inputs": [p["src"][:80] for p in r["pieces"]][:6]})
    cx.cover.update({
        "programs": len(cases), "evaluations": npieces_total, "distinct_nontrivial": len(nontriv),
        "traces_validated_against_impl": len(cases) - len(set(unknown)), "skipped_unknown": len(set(unknown)),
        "long_history_inputs": npieces,
        "rule": "programs of C01's generator split into consecutive pieces (singletons / random runs / random cut) with rejected inputs "
                "(7 templates + redeclaration of a known name) and failing inputs inserted; non-trivial = distinct input sequence with a "
                "rejected input or more than two pieces",
    })
    cx.assumptions += ["the REPL protocol is reproduced with the public API (one compiler.Compiler, one VM, Run, SetIP after an error); "
                       "cmd/risor/repl itself needs a terminal",
                       "a failing piece that also declares names leaves them declared but unset: the rest of such a history is outside the model"]
