"""C10 - channels and spawned threads deliver every value exactly once, in order (DESIGN.md 5, C10).

M: Chan.tla (FIFO queue with capacity, rendezvous, close) checked exhaustively by TLC for capacities 0..2:
   AtMostOnce, PerSenderFIFO, NilOnlyAfterDrain, Quiescent (exactly once at the end), liveness, and the
   refinement Chan => ChanAbs.
V: producer/consumer topologies (1..4 x 1..4, capacities 0..8, up to 10^4 messages, three spawn forms, two
   receive forms: explicit loop, iteration, iteration left early and resumed) run as scripts under GOMAXPROCS 1 / 2 / 16 with injected yields; events stamped by one atomic
   counter are validated by TLC against ChanAbs (TraceChan.tla).  Thread semantics: wait() returns exactly the
   spawned call's result or error, arguments are the values given at the spawn site.
"""
import json
import os
import random
import re

import vlib
import langlib


def run(cx):
    cx.level = "model_checking"
    drv = cx.go_build("chans")
    # ---- M
    total_states = 0
    for cap in (0, 1, 2):
        cfg = ("SPECIFICATION Spec\nCONSTANTS NS = 2\n NR = 2\n Msgs = %d\n Cap = %d\n"
               "INVARIANT AtMostOnce\nINVARIANT OnlyAnnounced\nINVARIANT PerSenderFIFO\nINVARIANT NilOnlyAfterDrain\nINVARIANT Quiescent\n"
               "PROPERTY EventuallyAllDelivered\nPROPERTY AbsSpec\nCHECK_DEADLOCK FALSE\n" % (2 if cx.quick() else 3, cap))
        r = cx.tlc("Chan", cfg_text=cfg, workers=8, name="chan_mc_cap%d" % cap, timeout=1800)
        cx.tlc_must_pass(r, "Chan cap=%d" % cap)
    # ---- V: topologies
    rnd = random.Random(cx.seed)
    topos = []
    sizes = [(1, 1), (2, 1), (1, 2), (2, 2), (3, 2), (2, 3), (4, 4), (4, 1), (1, 4), (3, 3)]
    caps = [0, 1, 2, 8] if cx.quick() else [0, 1, 2, 3, 5, 8]
    for (ns, nr) in sizes:
        for cap in caps:
            for form in ("spawn", "method", "go"):
                recv = rnd.choice(["loop", "iter", "iterbreak", "iterbreak"])
                msgs = rnd.choice([3, 10, 40]) if cx.quick() else rnd.choice([3, 10, 100, 400])
                topos.append({"ns": ns, "nr": nr, "msgs": msgs, "cap": cap, "spawn": form, "recv": recv})
    # a few long ones
    for msgs in ([1000] if cx.quick() else [2500, 10000]):
        topos.append({"ns": 4, "nr": 4, "msgs": msgs // 4, "cap": 2, "spawn": "spawn", "recv": "iterbreak"})
        topos.append({"ns": 1, "nr": 1, "msgs": msgs, "cap": 0, "spawn": "method", "recv": "loop"})
    # a burst of tiny racy ones: more receivers than values in the buffer, direct receives, the close right behind
    # the last value - receivers race for each value and for the close
    # (many rounds inside one evaluation, each round a history of its own)
    for k_ in range(int(os.environ.get("C10_BURST", "0")) or (24 if cx.quick() else 240)):
        topos.append({"ns": 1, "nr": 3 + k_ % 3, "msgs": 1 + k_ % 3, "cap": 1 + k_ % 4, "spawn": "spawn",
                      "recv": "method" if k_ % 4 == 3 else "loop", "rounds": 60})
    traces = []
    by_id = {}
    nmsg = 0
    bad_marks = []
    tid = 0
    for procs in (1, 2, 16):
        if len(cx.violations) >= 20:
            cx.notes.append("GOMAXPROCS=%d skipped: the batches before it already gave %d findings" % (procs, len(cx.violations)))
            continue
        rows = []
        for t in topos:
            row = dict(t)
            row["id"] = tid
            row["seed"] = cx.seed * 100000 + tid
            row["procs"] = procs
            row["timeout_s"] = 20 if cx.quick() else 120
            rows.append(row)
            tid += 1
        tin = cx.path("topo%d.ndjson" % procs)
        vlib.write_ndjson(tin, rows)
        tout = cx.path("topo%d.out.ndjson" % procs)
        cx.run([drv, "run", "-in", tin, "-out", tout, "-j", "6"], env={"GOMAXPROCS": str(procs)}, timeout=3000)
        ndead = 0
        for r_ in vlib.read_ndjson(tout):
            res = r_["res"]
            by_id[r_["id"]] = r_
            if res.get("k") == "raise":
                # the script itself failed: with a correct runtime these topologies always complete
                cx.violation("producer/consumer script failed (%s) for topology %s under GOMAXPROCS=%d" % (
                    res.get("msg", "")[:200], json.dumps({k: r_[k] for k in ("ns", "nr", "msgs", "cap", "spawn", "recv")}), procs),
                    {"leg": "script", "topology": r_, "src": res.get("src")})
                continue
            if res.get("k") != "ok":
                cx.notes.append("topology %s: driver result %s" % (r_["id"], str(res)[:150]))
                ndead += 1
                continue
            if "rounds" in r_:
                for k_, evs in enumerate(res.get("rounds") or []):
                    rid = 10000000 + r_["id"] * 1000 + k_
                    by_id[rid] = r_
                    traces.append({"id": rid, "ns": 1, "nr": r_["nr"], "msgs": r_["msgs"], "events": evs})
                    nmsg += r_["msgs"]
                continue
            traces.append({"id": r_["id"], "ns": r_["ns"], "nr": r_["nr"], "msgs": r_["msgs"], "events": res["events"]})
            nmsg += r_["ns"] * r_["msgs"]
            marks = {(m["ev"], m["t"]): m["v"] for m in res.get("marks") or []}
            exp = {("spawn", 1): "5", ("spawn", 2): "6", ("wait", 1): "51", ("wait", 2): "62", ("waiterr", 3): '"boom"',
                   ("go", 4): "[13, 23, 33, 43]", ("go", 5): "8", ("go", 6): "9", ("go", 7): "407",
                   ("closure", 8): "[105, 6, 5]", ("closure", 9): "[7, 7]",
                   ("nilvalue", 10): "[1, nil, 3, nil]", ("nilvalue", 11): "[[0, nil], [1, 7]]", ("waitpanic", 12): '"raised"',
                   ("nested", 13): "[50, 1225]", ("nested", 14): "42",
                   ("go", 19): "[7, 42, 11]", ("closedsend", 20): '["err", "err", "err", "err", nil]', ("hostspawn", 15): "[10, 20, 30, 40]", ("spawnbuiltin", 16): "[%s, %s]" % (list(range(0, 40, 2)), list(range(1, 21))), ("spawnbuiltin", 17): "[2, 3, 4]",
                   ("spawnbuiltin", 18): str(list(range(0, 60, 3)))}
            if marks != exp:
                bad_marks.append((r_["id"], marks))
        cx.alive(ndead, len(rows), "channel topologies under GOMAXPROCS=%d" % procs)
    langlib.tlc_conform(cx, traces, spec="TraceChan", prefix="trace", strip=(), nshards=8)
    rejected = {}
    for d in sorted(x for x in os.listdir(cx.work) if x.startswith("tlc_trace_")):
        for ln in open(cx.path(d, "tlc.out")):
            m = re.match(r'^<<"(REJECTED|INCOMPLETE)", (\d+)(?:, (\d+), "(.*)")?>>$', ln.strip())
            if m:
                rejected.setdefault(int(m.group(2)), (m.group(1), m.group(3), (m.group(4) or "").replace('\\"', '"')))
    for i, (why, pos, ev) in sorted(rejected.items())[:10]:
        r_ = by_id[i]
        topo = {k: r_[k] for k in ("ns", "nr", "msgs", "cap", "spawn", "recv", "procs")}
        evs = r_["res"]["events"]
        p = int(pos) if pos else len(evs)
        cx.violation("recorded channel history is not a behaviour of ChanAbs (%s at event %s %s): topology=%s context=%s" % (
            why, pos, ev, json.dumps(topo), json.dumps(evs[max(0, p - 6):p + 1])[:400]),
            {"leg": "trace", "topology": topo, "why": why, "position": pos, "events": evs[:2000], "src": r_["res"].get("src")})
    for i, marks in bad_marks[:5]:
        cx.violation("thread semantics: spawn arguments / wait values differ from the values given at the spawn site: %s" % json.dumps(sorted(marks.items())),
                     {"leg": "threads", "marks": sorted(marks.items()), "topology": by_id[i]})
    if traces:
        cx.sample({"topology": {k: by_id[traces[0]["id"]][k] for k in ("ns", "nr", "msgs", "cap", "spawn", "recv")}, "events": traces[0]["events"][:12]})
    cx.cover.update({
        "evaluations": nmsg, "distinct_nontrivial": len([t for t in traces if t["ns"] + t["nr"] > 2]),
        "traces_validated_against_impl": len(traces), "topologies": len(topos), "gomaxprocs": [1, 2, 16],
        "rule": "10 sender x receiver shapes (1..4 x 1..4) x capacities x 3 spawn forms (spawn(), fn.spawn(), go statement) x receive form "
                "(explicit <-c loop / iteration / iteration left early, direct receive, new iteration) x message counts, each under GOMAXPROCS 1, 2, 16 with seeded yields in the host builtins; "
                "evaluations = messages sent; non-trivial = trace with more than one sender or receiver",
    })
    cx.assumptions += ["send is stamped before the channel operation, receive after it, with one atomic counter (DESIGN.md 5/C10)",
                       "a nil receive may happen while other receivers hold one unannounced value each (ChanAbs!ANil)"]
