"""C08 - Go values cross the host/script boundary faithfully or are rejected cleanly (DESIGN.md 5, C08).

M: TLC checks the laws of specs/Boundary.tla (round trip or Rejected, field write reads back, method receives
   its arguments) for every (type, value class) of the Go type algebra to depth 2 (quick) / 3 (thorough).
G: the same TLC runs emit every (type, class, route) as a JSON line; harness/cmd/boundary materialises the
   type with reflect (named types and method-carrying boxes from a pre-declared pool), performs the route on the
   real risor boundary under recover in crash-isolated workers and reports trees of what the script saw and of
   what Go received; BoundaryCheck.tla (one observation per TLC state, sharded) judges every observation.
V: random deeper chains (depth 3..6, seeded) through the same driver and the same operators.
"""
import json
import os
import re
import threading

import vlib
import langlib

NAMED = {"MyInt", "MyStr", "MyFloat", "MyBool", "Duration", "MyU64", "MyU8", "MyI8", "MyF32", "MyList", "MyMap", "Rec", "Hid", "MyStrs"}
JVM = {"JAVA_TOOL_OPTIONS": "-XX:ParallelGCThreads=2"}  # many single-worker TLC processes run side by side
LINE = re.compile(r'^<<"(MISMATCH|SOFT|HARNESS)", (-?\d+), "(.*)">>$')


WHAT = {
    "panic": "conversion panicked",
    "crash": "conversion killed the process",
    "arg-not-delivered": "representable argument not delivered to the method",
    "unrepresentable-accepted": "unrepresentable value accepted (silently altered)",
    "calls": "method not called exactly once",
    "args-differ": "method received other arguments than the script passed",
    "script-differs": "script value differs from the Go original",
    "readback-differs": "written field reads back differently in the script",
    "type-differs": "converted back to a value of another Go type",
    "roundtrip-differs": "round trip yields a different Go value",
    "go-field-differs": "written field holds another value on the Go side",
    "lit-accepted": "value not representable in the field type was accepted (the field reads back differently)",
    "soft-rejected": "representable value rejected",
    "soft-back": "script value refused on the way back to Go",
    "soft-lit": "representable literal rejected",
}


def parallel(cx, jobs, width):
    """jobs: list of callables returning a TLCResult; at most `width` run side by side (memory), failures are Inconclusive."""
    results = [None] * len(jobs)
    errors = []
    gate = threading.Semaphore(width)

    def work(k):
        with gate:
            try:
                if not errors:
                    results[k] = jobs[k]()
            except Exception as e:  # noqa
                errors.append(e)
    ths = [threading.Thread(target=work, args=(k,)) for k in range(len(jobs))]
    for t in ths:
        t.start()
    for t in ths:
        t.join()
    if errors:
        raise errors[0]
    return results


def enumerate_cases(cx, depth, mdepth, nshards, width):
    """Legs M + G: the laws are invariants, the cases are printed by the Emit invariant."""
    def job(k):
        cfg = ("CONSTANT Depth = %d\nCONSTANT MDepth = %d\nCONSTANT Shard = %d\nCONSTANT NShards = %d\n"
               "INIT Init\nNEXT Next\nINVARIANT LawRoundTrip\nINVARIANT LawFieldWrite\nINVARIANT LawMethodArgs\n"
               "INVARIANT LawLiteral\nINVARIANT Emit\nCHECK_DEADLOCK FALSE\n" % (depth, mdepth, k, nshards))
        return lambda: cx.tlc("BoundaryMC", cfg_text=cfg, workers=1, name="mc_%d" % k, heap="2g", timeout=1500, env=JVM)
    results = parallel(cx, [job(k) for k in range(nshards)], width)
    cases = []
    for r in results:
        if r.invariant_violated:
            raise vlib.Inconclusive("Boundary.tla violates its own law %s (spec error, not a verdict):\n%s" % (
                r.invariant_violated, "\n".join(r.lines[-30:])))
        cx.tlc_must_pass(r, "BoundaryMC")
        for s in r.tuples("CASE"):
            cases.append(json.loads(s))
        r.out, r.lines = "", []
    cases.sort(key=lambda c: (len(c["t"]), c["t"], c["c"], c["r"], json.dumps(c["w"], sort_keys=True)))
    for i, c in enumerate(cases):
        c["id"] = i + 1
    return cases


JUDGED = ("id", "t", "c", "r", "w", "k", "script", "back", "back_k", "typeok", "calls")


def judge_files(cx, paths, prefix, width):
    """BoundaryCheck over shard files of observation rows; {id: (tag, what)} for every non-conforming row."""
    results = parallel(cx, [
        (lambda p=p, k=k: cx.tlc("BoundaryCheck", env=dict(JVM, VERIF_OBS=p), workers=1, name="%s_%d" % (prefix, k),
                                 heap="2g", timeout=1500)) for k, p in enumerate(paths)], width)
    out = {}
    for r in results:
        cx.tlc_must_pass(r, "BoundaryCheck")
        for ln in r.lines:
            m = LINE.match(ln.strip())
            if m:
                out[int(m.group(2))] = (m.group(1), WHAT.get(m.group(3), m.group(3)))
    return out


def judge(cx, obs, prefix, nshards, width):
    rows = [{k: o[k] for k in JUDGED} for o in obs]
    return judge_files(cx, langlib.shard_cases(cx, rows, nshards, prefix), prefix, width)


def drive(cx, drv, cases, name, jobs=None):
    """Run the cases on the real boundary; returns the path of the observation file (one JSON line per case)."""
    inp, outp = cx.path(name + "_cases.ndjson"), cx.path(name + "_obs.ndjson")
    vlib.write_ndjson(inp, cases)
    cx.run([drv, "run", "-in", inp, "-out", outp, "-j", str(jobs or min(vlib.NCPU, 16))], timeout=1500)
    return outp


def each(path):
    with open(path) as f:
        for ln in f:
            if ln.strip():
                yield json.loads(ln)


def nontrivial(t):
    return len(t) > 1 or t[-1] in NAMED


def signature(o, what):
    """Classification of a failing observation (used to tell a known finding from a new violation)."""
    return {"what": what, "route": o["r"], "type": " ".join(o["t"]), "class": o["c"], "outcome": o["k"],
            "msg": (o.get("msg") or "")[:200]}


INT_RANGE = {"int8": (-2**7, 2**7 - 1), "int16": (-2**15, 2**15 - 1), "int32": (-2**31, 2**31 - 1),
             "int64": (-2**63, 2**63 - 1), "int": (-2**63, 2**63 - 1), "uint8": (0, 2**8 - 1), "uint16": (0, 2**16 - 1),
             "uint32": (0, 2**32 - 1), "uint64": (0, 2**64 - 1), "uint": (0, 2**64 - 1),
             "MyInt": (-2**63, 2**63 - 1), "Duration": (-2**63, 2**63 - 1),
             "MyU64": (0, 2**64 - 1), "MyU8": (0, 2**8 - 1), "MyI8": (-2**7, 2**7 - 1)}


def unrepresentable_why(chain, w):
    """Why literal tree w does not fit a slot of type chain: subset of {narrow, short, other} (mirrors ToGo)."""
    h = chain[0]
    if len(chain) == 1:
        if h not in INT_RANGE:
            return {"other"}
        if w["t"] in ("int", "byte"):
            lo, hi = INT_RANGE[h]
            return set() if lo <= int(w["s"]) <= hi else {"narrow"}
        return {"narrow"} if w["t"] == "float" else {"other"}
    rest = chain[1:]
    if h == "iface":
        return set()
    if h == "ptr":
        return set() if w["t"] == "nil" else unrepresentable_why(rest, w)
    why = set()
    if h in ("slice", "arr1", "arr2"):
        if w["t"] != "list":
            return {"other"}
        n = {"arr1": 1, "arr2": 2}.get(h)
        if n is not None and len(w["c"]) < n:
            why.add("short")
        if n is not None and len(w["c"]) > n:
            why.add("other")
    elif h == "map":
        if w["t"] != "map":
            return {"other"}
    else:
        return {"other"}
    for k in w["c"]:
        why |= unrepresentable_why(rest, k)
    return why


def matches(finding, o, what):
    """Does failing observation o (verdict text what) carry the signature of this known finding?"""
    m = finding.get("match", {})
    if m.get("what") != what or o["r"] not in m.get("routes", []):
        return False
    if "why" in m:
        return o["r"] == "write_lit" and unrepresentable_why(o["t"], o["w"]) == set(m["why"])
    return True


def run(cx):
    cx.level = "model_checking"
    drv = cx.go_build("boundary")
    if os.environ.get("VERIF_C08_DRIVER"):
        # demonstration only: judge a driver binary built against another checkout of the repository
        drv = os.environ["VERIF_C08_DRIVER"]
        cx.notes.append("driver overridden by VERIF_C08_DRIVER=%s (not the current /repo tree)" % drv)
    nsh = min(vlib.NCPU, 12)
    width = min(vlib.NCPU, 12) if cx.quick() else min(vlib.NCPU, 8)   # TLC processes side by side (memory)
    depth, mdepth = (2, 1) if cx.quick() else (3, 2)
    nrandom = 4000 if cx.quick() else 60000

    # ---- M + G: laws on the spec, cases for the driver
    cases = enumerate_cases(cx, depth, mdepth, nsh, width)
    ntypes = len(set(tuple(c["t"]) for c in cases))
    npairs = len(set((tuple(c["t"]), c["c"]) for c in cases if c["r"] != "write_lit"))
    cx.log("algebra depth %d: %d types, %d (type, class) pairs satisfy the laws, %d cases" % (
        depth, ntypes, npairs, len(cases)))

    # ---- V: random deeper chains through the same driver / operators
    rnd_path = cx.path("random.ndjson")
    cx.run([drv, "gen", "-seed", str(cx.seed), "-n", str(nrandom), "-depth", "6", "-out", rnd_path])
    rnd = vlib.read_ndjson(rnd_path)
    base = len(cases)
    for c in rnd:
        c["id"] = base + c["id"]

    # ---- known findings: pinned witnesses
    known = cx.known_findings()
    wit = []
    for k, f in enumerate(known):
        w = dict(f["witness"])
        w.setdefault("w", {"t": "na", "s": "", "k": [], "c": []})
        w["id"] = base + len(rnd) + 1 + k
        wit.append(w)
    witness_ids = set(w["id"] for w in wit)

    allcases = cases + rnd + wit
    ncases, nenum, nrnd = len(allcases), len(cases), len(rnd)
    case_of = {c["id"]: c for c in allcases}
    obs_path = drive(cx, drv, allcases, "all")
    del allcases, cases, rnd

    # ---- one streaming pass: shard files for TLC, statistics, self-test probes; a case whose worker hung or
    # died is performed once more on its own before it counts
    retry = [o["id"] for o in each(obs_path) if o["k"] in ("hang", "nostart", "badresp", "crash")]
    redone = {}
    if retry:
        cx.notes.append("%d cases hung or lost their worker and were performed again one by one" % len(retry))
        for o in each(drive(cx, drv, [case_of[i] for i in retry], "retry", jobs=2)):
            redone[o["id"]] = o
    nshards = nsh if cx.quick() else 3 * nsh
    shard_paths = [cx.path("obs.shard%d.ndjson" % k) for k in range(nshards)]
    shards = [open(p, "w") for p in shard_paths]
    outcomes, triples, samples, probes, n = {}, set(), [], [], 0
    for o in each(obs_path):
        o = redone.get(o["id"], o)
        shards[n % nshards].write(json.dumps({k: o[k] for k in JUDGED}, separators=(",", ":")) + "\n")
        n += 1
        if o["id"] in witness_ids:
            continue
        outcomes[o["k"]] = outcomes.get(o["k"], 0) + 1
        triples.add((" ".join(o["t"]), o["c"] if o["r"] != "write_lit" else json.dumps(o["w"], sort_keys=True), o["r"]))
        if n % max(1, ncases // 6) == 1:
            samples.append({"t": o["t"], "c": o["c"], "r": o["r"], "k": o["k"], "script": json.dumps(o["script"])[:200]})
        # binding self-test: a corrupted observation must be flagged (DESIGN 8.4)
        if len(probes) < 3 and o["k"] == "ok" and o["r"] == "field_read" and o["script"]["t"] in ("int", "float", "str"):
            p = json.loads(json.dumps({k: o[k] for k in JUDGED}))
            p["id"] = -len(probes) - 1
            p["script"]["s"] = p["script"]["s"] + "1"
            probes.append(p)
            shards[0].write(json.dumps(p, separators=(",", ":")) + "\n")
    for f in shards:
        f.close()
    if n != ncases:
        raise vlib.Inconclusive("driver answered %d of %d cases" % (n, ncases))
    if len(probes) < 3:
        raise vlib.Inconclusive("self-test: no scalar field_read observation to corrupt")
    verdicts = judge_files(cx, shard_paths, "obs", width)
    for p in probes:
        if verdicts.get(p["id"], ("", ""))[0] != "MISMATCH":
            raise vlib.Inconclusive("self-test: a corrupted observation was not flagged by BoundaryCheck")

    # ---- second pass: only the observations TLC flagged are kept
    flagged = set(i for i in verdicts if i > 0)
    by_id = {}
    for o in each(obs_path):
        if o["id"] in flagged:
            by_id[o["id"]] = redone.get(o["id"], o)

    # ---- classify
    harness = [(i, w) for i, (tag, w) in verdicts.items() if tag == "HARNESS" and i > 0]
    if harness:
        i, w = harness[0]
        raise vlib.Inconclusive("driver could not perform %d cases, e.g. %s: %s %s" % (
            len(harness), w, json.dumps({k: by_id[i][k] for k in ("t", "c", "r")}), str(by_id[i].get("msg"))[:300]))
    soft = {}
    for i, (tag, w) in verdicts.items():
        if tag == "SOFT" and i > 0:
            o = by_id[i]
            key = "%s | %s | %s" % (w, o["r"], re.sub(r"[0-9]+", "N", (o.get("msg") or o.get("back_msg") or ""))[:100])
            soft.setdefault(key, []).append(i)
    mism = sorted(i for i, (tag, w) in verdicts.items() if tag == "MISMATCH" and i > 0)
    for f, w in zip(known, wit):
        if w["id"] in mism:
            cx.report_known(f)
        else:
            cx.notes.append("known finding %s: witness no longer fails" % f["id"])

    # ---- re-execute every disagreement directly before reporting it: each case twice in a row in ONE fresh
    # worker process, so that a failure that needs the converter/type caches warmed by the case itself reproduces
    todo = [i for i in mism if i not in witness_ids]
    groups = {}
    nknown = {}
    if todo:
        TWICE = 10 ** 7
        picked = {}
        for i in todo:  # at most 40 cases of each kind are re-executed; a known signature is a kind of its own
            o = by_id[i]
            f = next((f for f in known if matches(f, o, verdicts[i][1])), None)
            key = ("known", f["id"]) if f is not None else (
                verdicts[i][1], o["r"], o["k"], re.sub(r"[0-9]+", "N", o.get("msg") or "")[:80])
            if len(picked.setdefault(key, [])) < 40:
                picked[key].append(i)
        req = []
        for ids in picked.values():
            for i in ids:
                req += [case_of[i], dict(case_of[i], id=i + TWICE)]
        again = list(each(drive(cx, drv, req, "again", jobs=1)))
        again_v = judge(cx, again, "again", max(1, min(4, len(again) // 200)), width)
        seen = set()
        for o in again:
            i = o["id"] % TWICE
            if again_v.get(o["id"], ("OK", ""))[0] != "MISMATCH" or i in seen:
                continue
            seen.add(i)
            what = again_v[o["id"]][1]
            f = next((f for f in known if matches(f, o, what)), None)
            if f is not None:
                nknown[f["id"]] = nknown.get(f["id"], 0) + 1
                cx.report_known(f)
                continue
            key = (what, o["r"], re.sub(r"[0-9]+", "N", (o.get("msg") or ""))[:40])
            groups.setdefault(key, []).append(dict(o, id=i))
        # a disagreement that needs the type caches in the state other routes leave behind: in a second fresh
        # process every remaining case is preceded by the by-value and by-field routes of its own (type, class)
        rest = [i for ids in picked.values() for i in ids if i not in seen and by_id[i]["r"] not in ("write_lit", "global", "field_read")]
        if rest:
            WARM = 2 * 10 ** 7
            req2 = []
            for n_, i in enumerate(rest):
                c0 = case_of[i]
                for k_, r0 in enumerate(("global", "field_read")):
                    if not (r0 == "global" and c0["t"][0] == "iface"):
                        req2.append(dict(c0, r=r0, id=WARM + 2 * n_ + k_))
                req2 += [c0, dict(c0, id=i + TWICE)]
            again2 = [o for o in each(drive(cx, drv, req2, "again2", jobs=1)) if o["id"] < WARM]
            again2_v = judge(cx, again2, "again2", 1, width)
            for o in again2:
                i = o["id"] % TWICE
                if again2_v.get(o["id"], ("OK", ""))[0] != "MISMATCH" or i in seen:
                    continue
                seen.add(i)
                what = again2_v[o["id"]][1]
                f = next((f for f in known if matches(f, o, what)), None)
                if f is not None:
                    nknown[f["id"]] = nknown.get(f["id"], 0) + 1
                    cx.report_known(f)
                    continue
                key = (what, o["r"], re.sub(r"[0-9]+", "N", (o.get("msg") or ""))[:40])
                groups.setdefault(key, []).append(dict(o, id=i, replay_with="global and field_read of the same type first"))
        for ids in picked.values():
            for i in ids:
                if i not in seen:
                    cx.notes.append("case %d (%s) disagreed once but not when re-executed (not reported)" % (
                        i, json.dumps({k: by_id[i][k] for k in ("t", "c", "r")})))
    for (what, route, msg), items in sorted(groups.items(), key=lambda kv: (min(len(x["t"]) for x in kv[1]), -len(kv[1]))):
        o = min(items, key=lambda x: (len(x["t"]), x["id"]))
        cx.violation("%s: route=%s type=%s class=%s outcome=%s %s (%d cases of this kind)" % (
            what, route, " ".join(o["t"]), o["c"], o["k"], (o.get("msg") or "")[:200], len(items)),
            {"leg": "G" if o["id"] <= base else "V", "case": {k: o[k] for k in ("t", "c", "r", "w")},
             "replay": "boundary run with the case twice in one worker (-j 1)",
             "observation": o, "signature": signature(o, what), "same_kind": len(items),
             "others": [{k: x[k] for k in ("t", "c", "r")} for x in items[1:6]]})

    # ---- evidence
    for x in samples[:6]:
        cx.sample(x)
    for key, ids in sorted(soft.items(), key=lambda kv: -len(kv[1]))[:10]:
        cx.notes.append("representable value rejected with an error (allowed, %d cases): %s" % (len(ids), key))
    njudged = ncases - len(wit)
    cx.cover.update({
        "evaluations": njudged,
        "distinct_nontrivial": len([1 for t in triples if nontrivial(t[0].split(" "))]),
        "types_enumerated": ntypes,
        "type_class_pairs_law_checked": npairs,
        "enumerated_cases": nenum,
        "random_deeper_cases": nrnd,
        "traces_validated_against_impl": njudged,
        "outcomes": outcomes,
        "representable_but_rejected": sum(len(v) for v in soft.values()),
        "known_finding_cases_reexecuted": nknown,
        "disagreements_before_reexecution": len(todo),
        "algebra_depth": depth,
        "method_route_depth": mdepth,
        "exhaustive": True,
        "rule": "TLC enumerates every (type chain, value class, route) of the Go type algebra of Boundary.tla to constructor "
                "depth %d (method routes to depth %d) - exhaustive for that finite space - plus %d seeded random chains of depth "
                "3..6 and the enumerated script literals of route write_lit; each case is performed on the real boundary and its script/Go trees are judged by BoundaryCheck.tla; "
                "non-trivial = the type has at least one constructor applied (pointer, slice, array, map, struct, interface "
                "or a named type)" % (depth, mdepth, nrnd),
    })
    cx.assumptions += [
        "Go-side equality is judged on trees in which pointers and interfaces are transparent, every integer kind is 'int' "
        "and a nil slice/map equals an empty one (the script has a single empty list/map and a single integer type); static Go "
        "types are checked separately (typeok: the converter's result is assignable to the slot type)",
        "extreme values are symbolic classes in the spec (decimal text) and resolved to concrete Go values by the driver's table",
        "a clean error for a representable value is allowed by the property text on every route except method arguments; such "
        "cases are counted (representable_but_rejected) and listed in notes",
        "an error whose text starts with 'panic:' (a Go panic recovered by the VM) counts as a panic of the conversion",
        "method routes use pre-declared generic Box[T] types (reflect cannot create methods), so they cover the pool only",
    ]
