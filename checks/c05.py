"""C05 - evaluation and compilation are deterministic (DESIGN.md 5, C05).

Lang.tla is a function: one outcome per program, with the orders the property names fixed
(map/set literal entries in source order, maps iterate/print by sorted key, sets by hash key).
G: TLC enumerates map/set literal programs (duplicate keys, effectful entries); V: random
programs with literal-heavy weights.  Each program is compiled and evaluated N times in one
process and in several processes: every repetition must give the outcome the spec assigns,
MarshalCode bytes must be identical across compilations and after unmarshal/re-marshal.
"""
import json
import re

import vlib
import langlib


def strip(o):
    return {k: v for k, v in (o or {}).items() if k not in ("msg", "msgcps", "tree", "tree_full")}


def whole(o):
    """The observation including the error text."""
    d = {k: v for k, v in (o or {}).items() if k not in ("msgcps", "tree", "tree_full")}
    # (only in the text of a recovered Go panic: the text of every other error is compared as it is - an address
    # in it is an observable that differs from run to run)
    if "msg" in d and d["msg"].startswith("panic:"):
        d["msg"] = re.sub(r"0x[0-9a-f]+", "0x?", d["msg"])
    return d


def wrap_literal(src):
    """Break the line after the second comma that follows the first map / set literal's opening brace."""
    i = src.find('{"')
    if i < 0:
        return src
    j = src.find(', "', i)
    k = src.find(', "', j + 1) if j >= 0 else -1
    at = k if k >= 0 else j
    if at < 0:
        return src
    return src[:at] + ',\n "' + src[at + 3:]


def run(cx):
    cx.level = "model_checking"
    lang = cx.go_build("lang")
    n_rand = 1500 if cx.quick() else 30000
    reps = 6 if cx.quick() else 24
    procs = 2 if cx.quick() else 4
    batches = []
    # G: enumerated map/set literal programs
    asts = langlib.gen_family(cx, "maplits", 3 if cx.quick() else 4)
    inp = cx.path("maplits.ndjson")
    vlib.write_ndjson(inp, [{"id": i, "ast": a, "hoist": []} for i, a in enumerate(asts)])
    outp = cx.path("maplits.cases.ndjson")
    cx.run([lang, "render", "-in", inp, "-out", outp])
    batches.append(("maplits", outp))
    # the same programs with their literals WRAPPED over lines (a line break after a comma, the continuation line
    # indented less than the first entry): the order of entries is the source order, however the source is laid out
    wrapped = []
    for c in vlib.read_ndjson(outp):
        w = wrap_literal(c["src"])
        if w != c["src"]:
            wrapped.append(dict(c, src=w))
    wp = cx.path("maplits_wrapped.cases.ndjson")
    vlib.write_ndjson(wp, wrapped)
    batches.append(("maplits-wrapped", wp))
    # G: loops whose body changes the list / map they iterate (Grammar!IterMuts, MapMuts): what they visit is specified
    _, imp = langlib.run_family(cx, lang, "itermuts", 0)
    batches.append(("itermuts", imp))
    # V: random programs, literal-heavy
    rp = cx.path("rand.cases.ndjson")
    cx.run([lang, "gen", "-seed", str(cx.seed * 1000 + 5), "-n", str(n_rand), "-depth", "3", "-budget", "70",
            "-maplit", "-out", rp])
    batches.append(("random", rp))

    # G: constant classes in every position, scaled shapes (Shapes.tla): compared across repetitions / processes only
    for fam in (("consts", "scale", "errors", "order", "names") if not cx.quick() else ("scale", "errors", "order", "names")):
        _, sp = langlib.gen_shapes(cx, fam)
        so = cx.path("shapes_%s.cases.ndjson" % fam)
        cx.run([lang, "render", "-in", sp, "-out", so])
        batches.append(("shapes-" + fam, so))

    # designed programs that read the host's side through the VirtualOS (no model: compared across repetitions only)
    host_srcs = ["import os\nos.environ()", "import os\nprint(os.environ())\nlen(os.environ())", "import os\nsorted(os.environ()) == os.environ()",
                 "import os\n[os.getenv(\"HOME\"), os.getenv(\"ZED\"), os.environ()[0]]"]
    hin = cx.path("host.ndjson")
    vlib.write_ndjson(hin, [{"id": i, "ast": [{"k": "raw", "src": t}], "hoist": []} for i, t in enumerate(host_srcs)])
    hout = cx.path("host.cases.ndjson")
    cx.run([lang, "render", "-in", hin, "-out", hout])
    batches.append(("host", hout))

    total = nondet = checked = unknown_total = 0
    nontriv = set()
    for label, path in batches:
        cases = vlib.read_ndjson(path)
        by_id = {c["id"]: c for c in cases}
        # repeated compilation / evaluation: `procs` independent processes x `reps` repetitions each
        variants = {c["id"]: [c["obs"]] for c in cases}
        hashes = {c["id"]: set() for c in cases}
        flags = {c["id"]: [] for c in cases}
        for pi in range(procs):
            dout = cx.path("%s.det%d.ndjson" % (label, pi))
            cx.run([lang, "det", "-n", str(reps), "-in", path, "-out", dout], timeout=2400)
            for r in vlib.read_ndjson(dout):
                res = r["res"]
                if res.get("k") != "done":
                    flags[r["id"]].append("driver:" + str(res.get("k")) + ":" + str(res.get("msg", ""))[:100])
                    continue
                for v in res["variants"]:
                    if all(whole(v) != whole(w) for w in variants[r["id"]]):
                        variants[r["id"]].append(v)
                if res["compiled"]:
                    hashes[r["id"]].add((res["bytes_len"], res["bytes_hash"]))
                    if not res["marshal_same"]:
                        flags[r["id"]].append("MarshalCode bytes differ between compilations in one process")
                    if not res["remarshal_same"]:
                        flags[r["id"]].append("MarshalCode(UnmarshalCode(b)) differs from b")
        # every distinct observed outcome must be the one the spec assigns
        rows = []
        for c in cases:
            for vi, v in enumerate(variants[c["id"]]):
                rows.append({"id": c["id"] * 100 + vi, "ast": c["ast"], "hoist": c.get("hoist", []), "obs": v})
        mism, unknown = langlib.tlc_conform(cx, rows, prefix="det_" + label)
        ukn = set(u // 100 for u in unknown)
        unknown_total += len(ukn)
        total += len(cases)
        checked += len(cases) - len(ukn)
        for c in cases:
            s = json.dumps(c["ast"])
            if '"map"' in s or '"set"' in s:
                nontriv.add(c["src"])
        for c in cases:
            cid = c["id"]
            if len(variants[cid]) > 1:
                nondet += 1
                cx.violation("%s: repeated evaluation of one source gives different outcomes: src=%r outcomes=%s" % (
                    label, c["src"][:300], json.dumps([whole(v) for v in variants[cid]])[:700]),
                    {"leg": "repeat-" + label, "src": c["src"], "variants": variants[cid]})
            if len(hashes[cid]) > 1:
                cx.violation("%s: compiling one source gives different bytecode in different processes: src=%r" % (
                    label, c["src"][:300]), {"leg": "bytecode-" + label, "src": c["src"], "hashes": sorted(hashes[cid])})
            for f in flags[cid]:
                if f.startswith("driver:"):
                    cx.notes.append("case %s/%d: %s" % (label, cid, f))
                else:
                    cx.violation("%s: %s: src=%r" % (label, f, c["src"][:300]), {"leg": "marshal-" + label, "src": c["src"], "flag": f})
        for i, specjs in mism[:100]:
            c = by_id[i // 100]
            if len(variants[c["id"]]) > 1:
                continue  # already reported as nondeterminism
            cx.violation("%s: deterministic outcome differs from the order Lang.tla specifies: src=%r observed=%s specified=%s" % (
                label, c["src"][:300], json.dumps(strip(variants[c["id"]][0]))[:300], specjs[:300]),
                {"leg": "order-" + label, "src": c["src"], "ast": c["ast"], "observed": variants[c["id"]][0], "specified": specjs})
        cx.sample({"family": label, "src": cases[len(cases) // 3]["src"][:300], "repetitions": reps * procs + 1})
    cx.cover.update({
        "programs": total, "evaluations": total * (reps * procs + 1), "distinct_nontrivial": len(nontriv),
        "traces_validated_against_impl": checked, "skipped_unknown": unknown_total,
        "repetitions_per_program": reps * procs + 1, "processes": procs,
        "rule": "TLC-enumerated map/set literal programs (all entry sequences of length <= D over 2 keys x effectful values, three "
                "observation forms) plus literal-heavy random programs; each compiled and evaluated reps x procs times; "
                "non-trivial = distinct source containing a map or set literal",
    })
    cx.assumptions += ["Go's map iteration order is re-randomised on every range statement and per process; "
                       "repetitions therefore sample different orders",
                       "Lang.tla fixes: entries evaluated in source order, first entry of a duplicated key kept"]
