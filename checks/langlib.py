"""Shared helpers of the Lang.tla family (C01, C02, C05, C17, C18, C20)."""
import json
import os
import re
import threading

import vlib


def shard_cases(cx, cases, nshards, prefix):
    """Split case rows round-robin into ndjson shard files; returns the paths."""
    nshards = max(1, min(nshards, len(cases)))
    paths = []
    for k in range(nshards):
        p = cx.path("%s.shard%d.ndjson" % (prefix, k))
        vlib.write_ndjson(p, cases[k::nshards])
        paths.append(p)
    return paths


def tlc_conform(cx, cases, spec="LangCheck", prefix="lang", nshards=None, strip=("src",), timeout=1500):
    """Check every case row against the TLA+ specification with TLC.

    Returns (mismatches, unknown_ids): mismatches is a list of (id, spec_outcome_json).
    A TLC failure is Inconclusive (spec evaluation error is never a verdict).
    """
    nshards = nshards or min(vlib.NCPU, 12)
    rows = []
    for c in cases:
        r = {k: v for k, v in c.items() if k not in strip}
        rows.append(r)
    paths = shard_cases(cx, rows, nshards, prefix)
    results = [None] * len(paths)
    errors = []

    def work(k):
        try:
            results[k] = cx.tlc(spec, env={"VERIF_CASES": paths[k]}, workers=1, name="%s_%d" % (prefix, k),
                                timeout=timeout, heap="3g")
        except Exception as e:  # noqa
            errors.append(e)

    ths = [threading.Thread(target=work, args=(k,)) for k in range(len(paths))]
    for t in ths:
        t.start()
    for t in ths:
        t.join()
    if errors:
        raise errors[0]
    mism, unknown = [], []
    for r in results:
        cx.tlc_must_pass(r, spec)
        for ln in r.lines:
            ln = ln.strip()
            m = re.match(r'^<<"UNKNOWN", (-?\d+)>>$', ln)
            if m:
                unknown.append(int(m.group(1)))
                continue
            m = re.match(r'^<<"MISMATCH", (-?\d+), "(.*)">>$', ln)
            if m:
                js = m.group(2).replace('\\"', '"').replace('\\\\', '\\')
                mism.append((int(m.group(1)), js))
    return mism, unknown


def nontrivial(case):
    """A program is non-trivial if it contains a control transfer, a call or a container op."""
    s = json.dumps(case.get("ast"))
    return any(k in s for k in ('"for"', '"range"', '"call"', '"switch"', '"if"', '"func"'))
