"""Shared helpers of the Lang.tla family (C01, C02, C05, C17, C18, C20)."""
import json
import os
import re
import threading

import vlib


def shard_cases(cx, cases, nshards, prefix):
    """Split case rows round-robin into ndjson shard files; returns the paths."""
    nshards = max(1, min(nshards, len(cases)))
    paths = []
    for k in range(nshards):
        p = cx.path("%s.shard%d.ndjson" % (prefix, k))
        vlib.write_ndjson(p, cases[k::nshards])
        paths.append(p)
    return paths


def tlc_conform(cx, cases, spec="LangCheck", prefix="lang", nshards=None, strip=("src",), timeout=3000):
    """Check every case row against the TLA+ specification with TLC.

    Returns (mismatches, unknown_ids): mismatches is a list of (id, spec_outcome_json).
    A TLC failure is Inconclusive (spec evaluation error is never a verdict).
    """
    nshards = nshards or min(vlib.NCPU, 12)
    rows = []
    for c in cases:
        r = {k: v for k, v in c.items() if k not in strip}
        rows.append(r)
    paths = shard_cases(cx, rows, nshards, prefix)
    results = [None] * len(paths)
    errors = []

    def work(k):
        try:
            results[k] = cx.tlc(spec, env={"VERIF_CASES": paths[k]}, workers=1, name="%s_%d" % (prefix, k),
                                timeout=timeout, heap="3g")
        except Exception as e:  # noqa
            errors.append(e)

    ths = [threading.Thread(target=work, args=(k,)) for k in range(len(paths))]
    for t in ths:
        t.start()
    for t in ths:
        t.join()
    if errors:
        raise errors[0]
    mism, unknown = [], []
    for r in results:
        cx.tlc_must_pass(r, spec)
        for ln in r.lines:
            ln = ln.strip()
            m = re.match(r'^<<"UNKNOWN", (-?\d+)>>$', ln)
            if m:
                unknown.append(int(m.group(1)))
                continue
            m = re.match(r'^<<"MISMATCH", (-?\d+), "(.*)">>$', ln)
            if m:
                js = m.group(2).replace('\\"', '"').replace('\\\\', '\\')
                mism.append((int(m.group(1)), js))
    return mism, unknown


def nontrivial(case):
    """A program is non-trivial if it contains a control transfer, a call or a container op."""
    s = json.dumps(case.get("ast"))
    return any(k in s for k in ('"for"', '"range"', '"call"', '"switch"', '"if"', '"func"'))


def gen_family(cx, family, d, timeout=1500):
    """Enumerate one program family of Grammar.tla with TLC; returns the list of ASTs (statement lists)."""
    cfg = ('CONSTANTS Family = "%s"\n D = %d\nINIT Init\nNEXT Next\nINVARIANT Emit\nCHECK_DEADLOCK FALSE\n' % (family, d))
    r = cx.tlc("GrammarGen", cfg_text=cfg, workers=4, name="gen_%s_%d" % (family, d), timeout=timeout, heap="6g")
    cx.tlc_must_pass(r, "GrammarGen/" + family)
    asts = [json.loads(s) for s in r.tuples("AST")]
    if not asts:
        raise vlib.Inconclusive("GrammarGen produced no programs for family %s" % family)
    return asts


def run_family(cx, lang, family, d, minimal=False):
    """Enumerate, render, execute on the real pipeline; returns the case rows (with obs)."""
    asts = gen_family(cx, family, d)
    inp = cx.path("%s_%d.asts.ndjson" % (family, d))
    vlib.write_ndjson(inp, [{"id": i, "ast": a, "hoist": hoists(a)} for i, a in enumerate(asts)])
    out = cx.path("%s_%d.cases.ndjson" % (family, d))
    cmd = [lang, "render", "-in", inp, "-out", out]
    if minimal:
        cmd.append("-min")
    cx.run(cmd)
    return vlib.read_ndjson(out), out


def hoists(prog):
    """Names of top-level named function statements (visible everywhere in the program)."""
    return [st["f"]["name"] for st in prog if st.get("k") == "funcdecl" and st.get("hoisted")]


def gen_shapes(cx, family, timeout=900):
    """Enumerate one family of Shapes.tla (program TEXTS outside Lang.tla's integer range) with TLC.

    Returns case rows {id, src, ast: [raw], hoist: []} and the path of the ndjson file holding them."""
    cfg = 'CONSTANTS Family = "%s"\nINIT Init\nNEXT Next\nINVARIANT Emit\nCHECK_DEADLOCK FALSE\n' % family
    r = cx.tlc("ShapesGen", cfg_text=cfg, workers=4, name="shapes_" + family, timeout=timeout, heap="4g")
    cx.tlc_must_pass(r, "ShapesGen/" + family)
    srcs = sorted(json.loads(s)["src"] for s in r.tuples("SRC"))
    if not srcs:
        raise vlib.Inconclusive("ShapesGen produced no programs for family %s" % family)
    rows = [{"id": i, "src": s, "ast": [{"k": "raw", "src": s}], "hoist": []} for i, s in enumerate(srcs)]
    path = cx.path("shapes_%s.ndjson" % family)
    vlib.write_ndjson(path, rows)
    return rows, path
