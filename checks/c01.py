"""C01 - execution of a program matches its source-level meaning (DESIGN.md 5, C01).

V leg: type-directed random programs -> real pipeline -> TLC evaluates Lang!RunProgram
on every recorded case and reports the cases whose observation differs.
G leg: TLC enumerates operator pairs / control skeletons (Grammar.tla) -> rendered,
executed and checked the same way.
"""
import json
import os

import vlib
import langlib


def confirm(cx, lang, cases_path, mism, by_id, label):
    """Re-execute disagreeing cases on the real code; report those that reproduce."""
    if not mism:
        return 0
    ids = ",".join(str(i) for i, _ in mism[:200])
    p = cx.run([lang, "rerun", "-in", cases_path, "-ids", ids])
    again = {}
    for ln in p.stdout.decode().splitlines():
        if ln.strip():
            d = json.loads(ln)
            again[d["id"]] = d["obs"]
    n = 0
    for i, specjs in mism[:200]:
        c = by_id[i]
        a = again.get(i)
        strip = lambda o: {k: v for k, v in (o or {}).items() if k not in ("msg", "msgcps")}
        if a is None or strip(a) != strip(c["obs"]):
            cx.notes.append("%s case %d: observation not reproduced on re-execution (ignored)" % (label, i))
            continue
        n += 1
        cx.violation("%s: real outcome differs from Lang.tla: src=%r observed=%s specified=%s" % (
            label + ("/" + c["obs"]["route"] if c["obs"].get("route") else ""), c["src"][:300], json.dumps(strip(c["obs"]))[:300], specjs[:300]),
            {"leg": label, "src": c["src"], "ast": c["ast"], "hoist": c.get("hoist", []),
             "observed": c["obs"], "specified": specjs})
    return n


def run(cx):
    cx.level = "model_checking"
    lang = cx.go_build("lang")
    n = 3000 if cx.quick() else 60000
    total = 0
    unknown_total = 0
    nontriv = set()
    checked = 0
    # ---- V leg: random programs
    # the third batch mixes in scope probes (one statement in 7): most of those programs must be rejected by
    # the compiler, which Lang!StaticBad decides
    batches = [(3, 60, n // 2, 0), (4, 90, n // 2, 0), (3, 60, n // 3, 7)]
    rejected = 0
    timeouts_total = 0
    for bi, (depth, budget, cnt, ill) in enumerate(batches):
        cases_path = cx.path("rand%d.ndjson" % bi)
        # the first batch is evaluated through every host entry point (risor.Eval, parse + compile + vm.New + Run,
        # risor.EvalCode, risor.Eval with WithVM of a used VM, RunCode twice on one VM): an entry point whose
        # outcome differs from risor.Eval's supplies the observation
        cx.run([lang, "gen", "-seed", str(cx.seed * 1000 + bi), "-n", str(cnt), "-depth", str(depth),
                "-budget", str(budget), "-illscoped", str(ill), "-out", cases_path] + (["-routes"] if bi == 0 else []))
        cases = vlib.read_ndjson(cases_path)
        by_id = {c["id"]: c for c in cases}
        ntimeouts = len([c for c in cases if c["obs"].get("k") == "timeout"])
        timeouts_total += ntimeouts
        if ntimeouts > max(5, len(cases) // 100):
            raise vlib.Inconclusive("%d of %d generated programs did not finish within the harness limit: the comparison with "
                                    "Lang.tla would skip them all" % (ntimeouts, len(cases)))
        mism, unknown = langlib.tlc_conform(cx, cases, prefix="rand%d" % bi)
        total += len(cases)
        unknown_total += len(unknown)
        ukn = set(unknown)
        for c in cases:
            if c["id"] not in ukn and langlib.nontrivial(c):
                nontriv.add(c["src"])
        checked += len(cases) - len(unknown)
        confirm(cx, lang, cases_path, mism, by_id, "random-d%d%s" % (depth, "-scope" if ill else ""))
        if ill:
            rejected += len([c for c in cases if c["obs"].get("v") == "compile error"])
            cx.cover["scope_probe_programs"] = len(cases)
            cx.cover["scope_probe_programs_rejected_by_compiler"] = rejected
        for c in cases[:2]:
            cx.sample({"src": c["src"], "observed": {k: v for k, v in c["obs"].items() if k in ("k", "v")}})
    # ---- G leg: operator pairs (minimal parentheses; tree must equal the fully parenthesised one)
    fams = [("pairs", 0, True), ("skeletons", 3 if cx.quick() else 4, False), ("updates", 0, False)]
    if not cx.quick():
        fams.append(("triples", 0, True))
    gstats = {}
    for fam, d, minimal in fams:
        cases, cases_path = langlib.run_family(cx, lang, fam, d, minimal)
        by_id = {c["id"]: c for c in cases}
        mism, unknown = langlib.tlc_conform(cx, cases, prefix="g_" + fam)
        total += len(cases)
        unknown_total += len(unknown)
        checked += len(cases) - len(unknown)
        ukn = set(unknown)
        for c in cases:
            if c["id"] not in ukn:
                nontriv.add(c["src"])
        confirm(cx, lang, cases_path, mism, by_id, "enumerated-" + fam)
        bad_tree = [c for c in cases if c["obs"].get("tree", "same") != "same" or c["obs"].get("tree_full", "same") != "same"]
        for c in bad_tree[:20]:
            cx.violation("%s: the parser builds a different tree for the minimally parenthesised rendering: src=%r tree=%s tree_full=%s" % (
                fam, c["src"][-200:], c["obs"].get("tree"), c["obs"].get("tree_full")),
                {"leg": "tree-" + fam, "src": c["src"], "src_full": c.get("src_full"), "ast": c["ast"]})
        gstats[fam] = {"programs": len(cases), "unknown": len(unknown), "depth": d}
        cx.sample({"family": fam, "src": cases[len(cases) // 2]["src"][-200:]})
    cx.cover["enumerated_families"] = gstats
    # ---- known findings: replay each pinned witness on the real pipeline
    for f in cx.known_findings():
        w = f.get("witness", {})
        if "expected" not in w:
            continue
        wp = cx.path("witness_%s.ndjson" % f["id"])
        vlib.write_ndjson(wp, [{"id": 0, "src": w["src"], "ast": [{"k": "raw", "src": w["src"]}], "hoist": []}])
        p = cx.run([lang, "rerun", "-in", wp, "-ids", "0"])
        obs = json.loads(p.stdout.decode().splitlines()[0])["obs"]
        still = obs.get("k") != w["expected"]["k"] or (obs.get("k") == "ok" and obs.get("v") != w["expected"]["v"])
        if still:
            cx.report_known(f)
        else:
            cx.notes.append("known finding %s: witness no longer fails" % f["id"])
    cx.cover.update({
        "traces_validated_against_impl": checked,
        "programs": total,
        "evaluations": total,
        "distinct_nontrivial": len(nontriv),
        "skipped_unknown": unknown_total,
        "programs_not_finished_within_harness_limit": timeouts_total,
        "rule": "type-directed random programs (harness/ast/gen.go) rendered to source, run through the real "
                "lexer/parser/compiler/VM, and each observation compared by TLC with Lang!RunProgram(ast); "
                "non-trivial = distinct source containing a loop, branch, switch, call or function literal "
                "and inside the modelled domain (spec outcome not Unknown)",
    })
    cx.assumptions += [
        "Lang.tla is the source-level meaning (DESIGN.md Appendix A); errors are compared by kind",
        "programs whose specified outcome is Unknown (outside the modelled domain) are skipped, not counted as conforming",
        "the renderer (harness/ast/render.go) and the projection (harness/run) are trusted",
    ]
