"""C02 - closures capture variables lexically, at any depth and from any call path (DESIGN.md 5, C02).

Lang.tla closures carry their defining environment (cell addresses), so sharing and lifetime are lexical
by construction.  G: TLC enumerates closure scenarios (Grammar!Closures: nesting depth x binding read x
binding written x escape route x call order), including the route "fetched from Go and invoked through
vm.Call"; V: closure-heavy random programs.  Every observation of the real pipeline is checked by TLC
against Lang!RunProgram.
"""
import json
import subprocess

import vlib
import langlib
import c01


def render_prefix(cx, lang, rows):
    """Render the statements before the final call list of fromgo scenarios."""
    inp = cx.path("fromgo.asts.ndjson")
    vlib.write_ndjson(inp, [{"id": r["id"], "ast": r["ast"][:-1], "hoist": []} for r in rows])
    out = cx.path("fromgo.src.ndjson")
    cx.run([lang, "render", "-in", inp, "-out", out])
    return {r["id"]: r["src"] for r in vlib.read_ndjson(out)}


def run(cx):
    cx.level = "model_checking"
    lang = cx.go_build("lang")
    maxd = 4 if cx.quick() else 5
    total = checked = unknown_total = 0
    nontriv = set()
    # ---- G: enumerated closure scenarios
    asts = langlib.gen_family(cx, "closures", maxd)
    # closures over block-scoped variables of one activation, multi-assignment to captured variables
    asts += langlib.gen_family(cx, "blockclosures", 0)
    direct, fromgo = [], []
    for i, a in enumerate(asts):
        row = {"id": i, "ast": a, "hoist": []}
        if a and a[0].get("k") == "var" and a[0].get("n") == "route_fromgo":
            fromgo.append(row)
        else:
            direct.append(row)
    inp = cx.path("closures.asts.ndjson")
    vlib.write_ndjson(inp, direct)
    outp = cx.path("closures.cases.ndjson")
    cx.run([lang, "render", "-in", inp, "-out", outp])
    cases = vlib.read_ndjson(outp)
    # fetched-from-Go route: the program without its last statement is run, then the calls are made with vm.Call
    srcs = render_prefix(cx, lang, fromgo)
    gin = cx.path("gocall.in.ndjson")
    vlib.write_ndjson(gin, [{"id": r["id"], "src": srcs[r["id"]],
                             "calls": [c["f"]["n"] for c in r["ast"][-1]["e"]["items"]]} for r in fromgo])
    gout = cx.path("gocall.out.ndjson")
    cx.run([lang, "gocall", "-in", gin, "-out", gout])
    gres = {r["id"]: r for r in vlib.read_ndjson(gout)}
    gcases = []
    for r in fromgo:
        g = gres[r["id"]]
        obs = g["res"]
        if obs.get("k") not in ("ok", "raise"):
            cx.notes.append("fromgo case %d: driver result %s" % (r["id"], str(obs)[:150]))
        gcases.append({"id": r["id"], "ast": r["ast"], "hoist": [], "obs": obs, "src": g["src"] + "\n// then from Go: vm.Call " + ",".join(g["calls"])})
    cx.alive(sum(1 for c in gcases if c["obs"].get("k") not in ("ok", "raise")), len(gcases), "closures called from Go")
    for label, batch, path in (("closure-scenarios", cases, outp), ("closures-from-go", gcases, None)):
        by_id = {c["id"]: c for c in batch}
        mism, unknown = langlib.tlc_conform(cx, batch, prefix=label.replace("-", "_"))
        total += len(batch)
        unknown_total += len(unknown)
        checked += len(batch) - len(unknown)
        for c in batch:
            nontriv.add(c["src"])
        if path:
            c01.confirm(cx, lang, path, mism, by_id, label)
        else:
            for i, specjs in mism[:50]:
                c = by_id[i]
                cx.violation("%s: outcome of calling closures through vm.Call differs from Lang.tla: src=%r observed=%s specified=%s" % (
                    label, c["src"][:400], json.dumps({k: v for k, v in c["obs"].items() if k in ("k", "v", "out")})[:300], specjs[:300]),
                    {"leg": label, "src": c["src"], "observed": c["obs"], "specified": specjs})
        cx.sample({"family": label, "src": batch[len(batch) // 2]["src"][:400]})
    # ---- V: closure-heavy random programs
    n = 3000 if cx.quick() else 30000
    rp = cx.path("rand.ndjson")
    cx.run([lang, "gen", "-seed", str(cx.seed * 1000 + 2), "-n", str(n), "-depth", "4", "-budget", "90", "-closure", "-out", rp])
    rcases = vlib.read_ndjson(rp)
    by_id = {c["id"]: c for c in rcases}
    mism, unknown = langlib.tlc_conform(cx, rcases, prefix="rand")
    ukn = set(unknown)
    total += len(rcases)
    unknown_total += len(unknown)
    checked += len(rcases) - len(unknown)
    for c in rcases:
        if c["id"] not in ukn and json.dumps(c["ast"]).count('"func"') >= 2:
            nontriv.add(c["src"])
    c01.confirm(cx, lang, rp, mism, by_id, "random-closure-heavy")
    cx.cover.update({
        "programs": total, "evaluations": total, "distinct_nontrivial": len(nontriv),
        "traces_validated_against_impl": checked, "skipped_unknown": unknown_total,
        "closure_scenarios": len(asts), "max_nesting_depth": maxd, "from_go_scenarios": len(fromgo),
        "exhaustive": True,
        "rule": "Grammar!Closures(maxd): chains of maxd nested function literals x binding read x binding written x escape route "
                "(returned, stored in list/map, list.map callback, try, sorted comparator, fetched from Go + vm.Call) x call order, "
                "enumerated exhaustively by TLC; plus closure-heavy random programs; non-trivial = distinct source (scenarios) / "
                "random program with at least two function literals inside the modelled domain",
    })
    cx.assumptions += ["exhaustive for the enumerated scenario family only; random programs sample deeper mixtures"]
