"""C12 - a host-supplied OS mediates all file, environment, process and stdio access (DESIGN.md 5, C12).

M: TLC explores OSMed (propagation of the OS reference through Run / Clone / Spawn / Import in all
   nestings up to depth 3, both OS sources) and checks Mediated; the same machine with "Clone does
   not copy the OS" / "initContext does not install the OS" must violate it (non-vacuity).
G: the nestings TLC explored are exported and executed on the real code.
V: the real inventory of members (module attribute maps, global builtins of modules/os and
   modules/fmt, case labels of (*File).GetAttr) x execution context x OS source is called through
   scripts with a RECORDING os.OS inside a sandbox with sentinels; the event logs plus the source
   inventory of direct references to Go's os/ioutil/syscall/user/exec are validated by TraceOSMed.
"""
import json
import os
import random
import threading

import vlib

SUBJ = 'f := os.open("sentinel.txt")'

# member -> [(variant, setup statements, call statements, result expression)]
# Every path is RELATIVE and exists both in the virtual FS of the recording OS and in the real
# sandbox (the worker's cwd), so an unmediated call would succeed on the real side and be seen.
RECIPES = {
    "os.args": [("d", [], [], "os.args()")],
    "os.chdir": [("d", [], [], 'os.chdir("dir")')],
    "os.create": [("d", [], [], 'os.create("new.txt")')],
    "os.current_user": [("d", [], [], "os.current_user()")],
    "os.environ": [("d", [], [], "os.environ()")],
    "os.exit": [("d", [], [], "os.exit(0)"), ("code", [], [], "os.exit(3)")],
    "os.getenv": [("d", [], [], 'os.getenv("VERIF_SENTINEL")')],
    "os.getpid": [("d", [], [], "os.getpid()")],
    "os.getuid": [("d", [], [], "os.getuid()")],
    "os.getwd": [("d", [], [], "os.getwd()")],
    "os.hostname": [("d", [], [], "os.hostname()")],
    "os.lookup_gid": [("d", [], [], 'os.lookup_gid("0")'), ("int", [], [], "os.lookup_gid(0)")],
    "os.lookup_group": [("d", [], [], 'os.lookup_group("root")')],
    # (argument of another type: whatever the call does with it, an answer comes from the host OS)
    "os.lookup_uid": [("d", [], [], 'os.lookup_uid("0")'), ("int", [], [], "os.lookup_uid(0)")],
    "os.lookup_user": [("d", [], [], 'os.lookup_user("root")')],
    "os.mkdir": [("d", [], [], 'os.mkdir("newdir")')],
    "os.mkdir_all": [("d", [], [], 'os.mkdir_all("newdir/a/b")')],
    "os.mkdir_temp": [("d", [], [], 'os.mkdir_temp("", "pat")')],
    "os.open": [("d", [], [], 'os.open("sentinel.txt")')],
    "os.read_dir": [("d", [], [], 'os.read_dir("dir")'), ("cwd", [], [], "os.read_dir()")],
    "os.read_file": [("d", [], [], 'os.read_file("sentinel.txt")')],
    "os.remove": [("d", [], [], 'os.remove("sentinel.txt")')],
    "os.remove_all": [("d", [], [], 'os.remove_all("dir")')],
    "os.rename": [("d", [], [], 'os.rename("sentinel.txt", "renamed.txt")')],
    "os.setenv": [("d", [], [], 'os.setenv("VERIF_NEW", "x")')],
    "os.stat": [("d", [], [], 'os.stat("sentinel.txt")')],
    "os.symlink": [("d", [], [], 'os.symlink("sentinel.txt", "link.txt")')],
    "os.temp_dir": [("d", [], [], "os.temp_dir()")],
    "os.unsetenv": [("d", [], [], 'os.unsetenv("VERIF_SENTINEL")')],
    "os.user_cache_dir": [("d", [], [], "os.user_cache_dir()")],
    "os.user_config_dir": [("d", [], [], "os.user_config_dir()")],
    "os.user_home_dir": [("d", [], [], "os.user_home_dir()")],
    "os.write_file": [("d", [], [], 'os.write_file("sentinel.txt", "overwritten")')],
    "os.stdin": [("d", [], [], "os.stdin")],
    "os.stdout": [("d", [], [], "os.stdout")],
    "os.stderr": [("d", [], [], "os.stderr")],
    "os.err_not_exist": [("d", [], [], "string(os.err_not_exist)")],
    "os.err_exist": [("d", [], [], "string(os.err_exist)")],
    "os.err_permission": [("d", [], [], "string(os.err_permission)")],
    "os.err_closed": [("d", [], [], "string(os.err_closed)")],
    "os.err_invalid": [("d", [], [], "string(os.err_invalid)")],
    "os.err_no_deadline": [("d", [], [], "string(os.err_no_deadline)")],
    "os.err_deadline_exceeded": [("d", [], [], "string(os.err_deadline_exceeded)")],
    "filepath.abs": [("rel", [], [], 'filepath.abs("dir/a.txt")'), ("abs", [], [], 'filepath.abs("/x/../y")')],
    "filepath.base": [("d", [], [], 'filepath.base("dir/a.txt")')],
    "filepath.clean": [("d", [], [], 'filepath.clean("dir/../dir/a.txt")')],
    "filepath.dir": [("d", [], [], 'filepath.dir("dir/a.txt")')],
    "filepath.ext": [("d", [], [], 'filepath.ext("dir/a.txt")')],
    "filepath.is_abs": [("d", [], [], 'filepath.is_abs("dir/a.txt")')],
    "filepath.join": [("d", [], [], 'filepath.join("dir", "a.txt")')],
    "filepath.match": [("d", [], [], 'filepath.match("*.txt", "a.txt")')],
    "filepath.rel": [("d", [], [], 'filepath.rel("/a", "/a/b")')],
    "filepath.split": [("d", [], [], 'filepath.split("dir/a.txt")')],
    "filepath.split_list": [("d", [], [], 'filepath.split_list("a:b")')],
    "filepath.walk_dir": [("d", [], [], 'filepath.walk_dir("dir", func(p, d, e) { })')],
    "fmt.printf": [("d", [], [], 'fmt.printf("x%d\\n", 1)')],
    "fmt.println": [("d", [], [], 'fmt.println("x")')],
    "fmt.errorf": [("d", [], [], 'string(fmt.errorf("e %d", 1))')],
    "fmt.sprintf": [("d", [], [], 'fmt.sprintf("s %d", 1)')],
    "cat": [("d", [], [], 'cat("sentinel.txt")')],
    "cd": [("d", [], [], 'cd("dir")')],
    "cp": [("d", [], [], 'cp("sentinel.txt", "copy.txt")')],
    "getenv": [("d", [], [], 'getenv("VERIF_SENTINEL")')],
    "ls": [("d", [], [], 'ls("dir")'), ("cwd", [], [], "ls()")],
    "setenv": [("d", [], [], 'setenv("VERIF_NEW", "x")')],
    "unsetenv": [("d", [], [], 'unsetenv("VERIF_SENTINEL")')],
    "open": [("d", [], [], 'open("sentinel.txt")')],
    "print": [("d", [], [], 'print("x")')],
    "printf": [("d", [], [], 'printf("x%d\\n", 1)')],
    "errorf": [("d", [], [], 'string(errorf("e %d", 1))')],
    "sprintf": [("d", [], [], 'sprintf("s %d", 1)')],
    "file.name": [("d", [SUBJ], [], "f.name()")],
    "file.stat": [("d", [SUBJ], [], "f.stat()")],
    "file.position": [("d", [SUBJ], [], "f.position")],
    "file.read": [("d", [SUBJ], [], "f.read()"),
                  ("slice", [SUBJ], [], "f.read(byte_slice([0, 0, 0, 0]))"),
                  ("buffer", [SUBJ], [], "f.read(buffer(8))"),
                  ("stdin", ["f := os.stdin"], [], "f.read()")],
    "file.write": [("d", ['f := os.create("new.txt")'], [], 'f.write("abc")'),
                   ("stdout", ["f := os.stdout"], [], 'f.write("abc")'),
                   ("stderr", ["f := os.stderr"], [], 'f.write("abc")')],
    "file.close": [("d", [SUBJ], [], "f.close()")],
    "file.seek": [("d", [SUBJ], [], "f.seek(2, 0)")],
    "file.read_lines": [("d", [SUBJ], [], "f.read_lines()")],
    "file.iter": [("d", [SUBJ], ["n := 0", "for _, ln := range f { n++ }"], "n")],
}

# representatives for the deeper nestings in the quick tier (one per way of touching the OS)
SAMPLE = ["os.getenv", "os.read_file", "os.remove", "os.chdir", "os.exit", "os.stdout", "filepath.abs",
          "filepath.walk_dir", "fmt.println", "print", "cp", "ls", "open", "file.read", "file.write", "os.user_home_dir"]


def fn_text(header, stmts, expr, kind):
    return header + " {\n__enter(\"%s\")\n%s\nreturn %s\n}" % (kind, "\n".join(stmts), expr)


def build_script(path, setup, callstmts, expr):
    """Wrap `setup; __mark(); callstmts; expr` into the execution contexts of path (outermost first)."""
    stmts = list(setup) + ["__mark()"] + list(callstmts)
    modules = {}
    hostclone = False
    for i in range(len(path) - 1, -1, -1):
        kind = path[i]
        if kind == "spawn":
            stmts, expr = [], "spawn(" + fn_text("func()", stmts, expr, kind) + ").wait()"
        elif kind == "go":
            body = "__v%d := try(func() {\n%s\nreturn %s\n}, func(e) { return e })\n__c%d <- __v%d" % (
                i, "\n".join(stmts), expr, i, i)
            stmts = ["__c%d := chan(1)" % i, "go func() {\n__enter(\"go\")\n%s\n}()" % body]
            expr = "<-__c%d" % i
        elif kind == "cclone":
            stmts, expr = [], "__cclone(" + fn_text("func()", stmts, expr, kind) + ")"
        elif kind == "clonecall":
            stmts, expr = [], "__clonecall(" + fn_text("func()", stmts, expr, kind) + ")"
        elif kind == "import_fn":
            modules["m%d" % i] = fn_text("func f()", stmts, expr, kind)
            stmts, expr = ["import m%d" % i], "m%d.f()" % i
        elif kind == "import_body":
            modules["m%d" % i] = "__enter(\"import_body\")\n%s\n__r := %s" % ("\n".join(stmts), expr)
            stmts, expr = ["import m%d" % i], "m%d.__r" % i
        elif kind == "clone":
            assert i == 0
            hostclone = True
            stmts, expr = [fn_text("func __f()", stmts, expr, kind)], "nil"
        else:
            raise ValueError(kind)
    return "\n".join(stmts + [expr]), modules, hostclone


def executable(path):
    """__cclone clones the BASE VM; a function of a module that only a clone imported cannot run there
    (the base VM never loaded that module's code), so such nestings are not meaningful host behaviour."""
    cloned = imported_in_clone = False
    for k in path:
        if k in ("import_body", "import_fn"):
            imported_in_clone = imported_in_clone or cloned
        elif k == "cclone" and imported_in_clone:
            return False
        if k in ("go", "spawn", "clone", "cclone", "clonecall"):
            cloned = True
    return True


def make_requests(members, paths_all, paths_sample, sources):
    reqs = []
    no_recipe = []
    for fn in members:
        if fn not in RECIPES:
            no_recipe.append(fn)
            continue
        paths = list(paths_all) + (list(paths_sample) if fn in SAMPLE else [])
        for (v, setup, cs, expr) in RECIPES[fn]:
            for p in paths:
                if len(p) >= 2 and v != RECIPES[fn][0][0]:
                    continue  # argument variants only at depth <= 1
                if fn == "os.exit" and v == "code" and "go" in p:
                    continue  # exit(3) raises an error try() does not catch: the go thread would never answer
                script, modules, hostclone = build_script(p, setup, cs, expr)
                for s in sources + (["ctxwarm", "withoswarm", "withosvm", "ctxover", "withosafterctx", "withosonce", "withosshared"] if len(p) <= 1 else []):
                    if "clonecall" in p and s not in ("withos", "withoswarm", "withosvm", "withosafterctx", "withosonce", "withosshared"):
                        continue  # a context of the host callback's own carries no OS: only WithOS reaches the clone
                    reqs.append({"id": len(reqs), "fn": fn, "v": v, "path": list(p), "src": s, "script": script,
                                 "modules": modules, "hostclone": hostclone})
    return reqs, no_recipe


def to_trace(row):
    res = row["res"]
    return {"id": row["id"], "fn": row["fn"], "v": row["v"],
            "ev": [{"e": e["e"], "m": e["m"], "f": e["f"], "k": e["k"], "a": e["a"]} for e in res["events"]]}


def shard(cx, rows, n, prefix):
    n = max(1, min(n, len(rows)))
    paths = []
    for k in range(n):
        p = cx.path("%s_%d.ndjson" % (prefix, k))
        vlib.write_ndjson(p, rows[k::n])
        paths.append(p)
    return paths


def validate(cx, rows, prefix, nsh):
    """Run TraceOSMed over the trace rows; returns (bad, notes) keyed by tag."""
    paths = shard(cx, rows, nsh, prefix)
    results = [None] * len(paths)
    errors = []

    def work(k):
        try:
            results[k] = cx.tlc("TraceOSMed", env={"VERIF_TRACE": paths[k]}, workers=1,
                                name="%s_%d" % (prefix, k), heap="2g")
        except Exception as e:  # noqa
            errors.append(e)
    ths = [threading.Thread(target=work, args=(k,)) for k in range(len(paths))]
    for t in ths:
        t.start()
    for t in ths:
        t.join()
    if errors:
        raise errors[0]
    out = {"BAD": [], "UNCOVERED": [], "NOTEX": [], "SPECPRED": [], "BADTRACE": []}
    for r in results:
        cx.tlc_must_pass(r, "TraceOSMed")
        for tag in out:
            for s in r.tuples(tag):
                out[tag].append(json.loads(s))
    return out


def run_driver(cx, drv, reqs, name, procs=None, gomaxprocs=0):
    inp = cx.path(name + "_reqs.ndjson")
    outp = cx.path(name + "_calls.ndjson")
    vlib.write_ndjson(inp, reqs)
    argv = [drv, "run", "-in", inp, "-out", outp, "-work", cx.path("sbx_" + name)]
    if procs:
        argv += ["-procs", str(procs)]
    if gomaxprocs:
        argv += ["-gomaxprocs", str(gomaxprocs)]
    cx.run(argv, timeout=1100)
    return vlib.read_ndjson(outp)


def normalise(cx, rows, reqs_by_id):
    """Worker deaths are observations too: the process exited or crashed during the call."""
    good = []
    skipped = 0
    for row in rows:
        res = row["res"]
        if res.get("k") == "done":
            if res["status"] == "nocompile" and (str(res.get("msg", "")).startswith("warm-up:") or "context deadline exceeded" in str(res.get("msg", ""))
                                                or "context canceled" in str(res.get("msg", ""))):
                # the preparing evaluation of a warm source did not get through, or the request's context ended before
                # its script was parsed (a loaded machine);
                # the request decides nothing - a few are noted, many are Inconclusive
                skipped += 1
                cx.notes.append("request %s (%s %s) skipped: %s" % (row["id"], row["fn"], row["path"], str(res["msg"])[:160]))
                if skipped > 3:
                    raise vlib.Inconclusive("%d requests could not be prepared, e.g. %s" % (skipped, str(res["msg"])[:200]))
                continue
            if res["status"] == "nocompile":
                raise vlib.Inconclusive("recipe does not compile (%s %s): %s\n%s" % (
                    row["fn"], row["path"], res["msg"], reqs_by_id[row["id"]]["script"]))
            good.append(row)
        elif res.get("k") == "crash":
            ev = [{"e": "start", "m": "", "f": "", "k": row["src"], "a": ""},
                  {"e": "real_effect", "m": "", "f": "", "k": "process_died", "a": str(res.get("exit", ""))[:60]},
                  {"e": "end", "m": "", "f": "", "k": "crash", "a": ""}]
            row["res"] = {"k": "done", "status": "crash", "events": ev, "msg": res.get("stderr", "")[:300], "result": ""}
            good.append(row)
        else:
            raise vlib.Inconclusive("driver could not run request %s: %s" % (row["id"], json.dumps(res)[:300]))
    return good


def run(cx):
    cx.level = "model_checking"
    rnd = random.Random(cx.seed)
    drv = cx.go_build("osmed")
    quick = cx.quick()

    # ---- real inventory and source inventory
    inv_path, refs_path = cx.path("inventory.ndjson"), cx.path("refs.ndjson")
    cx.run([drv, "inventory", "-repo", vlib.REPO, "-out", inv_path])
    cx.run([drv, "scan", "-repo", vlib.REPO, "-out", refs_path])
    inventory = vlib.read_ndjson(inv_path)
    members = [m["fn"] for m in inventory]
    refs = vlib.read_ndjson(refs_path)
    scanned = [r["f"] for r in refs if r["e"] == "scanned"]
    drefs = [r for r in refs if r["e"] == "direct_ref"]

    # ---- M: propagation machine, all nestings
    depth = 3
    cfg = ("CONSTANTS\n  MaxDepth = %d\n  CloneCopiesOS = %s\n  InitInstalls = %s\nINIT PInit\nNEXT PNext\n"
           "INVARIANT TypeOK\nINVARIANT Mediated\n%sCHECK_DEADLOCK FALSE\n")
    r = cx.tlc("OSMed", cfg_text=cfg % (depth, "TRUE", "TRUE", "INVARIANT ExportNestings\n"), workers=4, name="M")
    cx.tlc_must_pass(r, "OSMed")
    m_states = r.distinct
    nestings = sorted(set(tuple(json.loads(s)) for s in r.tuples("NEST")), key=lambda p: (len(p), p))
    kinds_seen = set(k for p in nestings for k in p)
    if () not in nestings or kinds_seen != {"go", "spawn", "clone", "cclone", "clonecall", "import_body", "import_fn"}:
        raise vlib.Inconclusive("OSMed exported %d nestings over the context kinds %s" % (len(nestings), sorted(kinds_seen)))
    # non-vacuity: the design without the two mechanisms of the code must violate Mediated
    for (cc, ii) in (("FALSE", "TRUE"), ("TRUE", "FALSE")):
        ru = cx.tlc("OSMed", cfg_text=cfg % (depth, cc, ii, ""), workers=1, name="M_unfaithful_%s_%s" % (cc, ii))
        if "Mediated" not in ru.invariant_violated:
            raise vlib.Inconclusive("OSMed with CloneCopiesOS=%s InitInstalls=%s does not violate Mediated: "
                                    "the invariant is vacuous" % (cc, ii))

    # ---- G/V: members x contexts x OS sources on the real code
    skipped = [p for p in nestings if not executable(p)]
    nestings_all = len(nestings)
    nestings = [p for p in nestings if executable(p)]
    d01 = [p for p in nestings if len(p) <= 1]
    d2 = [p for p in nestings if len(p) == 2]
    d3 = [p for p in nestings if len(p) == 3]
    if quick:
        paths_all, paths_sample = d01, d2
    else:
        paths_all, paths_sample = d01 + d2 + d3, []
    sources = ["withos", "ctx"]
    reqs, no_recipe = make_requests(members, paths_all, paths_sample, sources)
    rnd.shuffle(reqs)
    for i, q in enumerate(reqs):
        q["id"] = i
    reqs_by_id = {q["id"]: q for q in reqs}
    cx.log("inventory: %d members (%d without recipe), %d nestings from TLC, %d calls" % (
        len(members), len(no_recipe), len(nestings), len(reqs)))
    rows = normalise(cx, run_driver(cx, drv, reqs, "main"), reqs_by_id)
    runs = [("default", rows)]
    if not quick:
        # GOMAXPROCS variations on the contexts of depth <= 2
        sub = [q for q in reqs if len(q["path"]) <= 2]
        for g in (1, 2, 8):
            runs.append(("gomaxprocs=%d" % g, normalise(cx, run_driver(cx, drv, sub, "g%d" % g, gomaxprocs=g), reqs_by_id)))

    # ---- trace validation
    scan_line = {"id": -1, "fn": "<scan>", "v": "", "ev": [
        {"e": "direct_ref", "m": d["m"], "f": d["f"], "k": d["k"], "a": d["a"]} for d in drefs]}
    nsh = min(vlib.NCPU, 12)
    total_events = 0
    bad_by_id = {}
    uncovered, notex, timeouts = set(), {}, 0
    reached = set()
    calls_total = 0
    ref_bad = []
    clone_mismatch = 0
    unattributed = []
    for name, rws in runs:
        trace = [to_trace(x) for x in rws]
        if name == "default":
            trace.append(scan_line)
        total_events += sum(len(t["ev"]) for t in trace)
        out = validate(cx, trace, "trace_" + name.replace("=", ""), nsh)
        if out["SPECPRED"] or out["BADTRACE"]:
            raise vlib.Inconclusive("recorded context events are not a behaviour of OSMed: %s" % json.dumps(
                (out["SPECPRED"] + out["BADTRACE"])[:3]))
        for b in out["BAD"]:
            if b["id"] == -1:
                ref_bad.append(b)
            else:
                bad_by_id.setdefault(b["id"], []).append(b)
        for u in out["UNCOVERED"]:
            uncovered.add(u["fn"])
        for x in out["NOTEX"]:
            q = reqs_by_id[x["id"]]
            notex.setdefault("%s/%s" % (q["fn"], q["v"]), set()).add("/".join(q["path"]) or "top")
        for x in rws:
            calls_total += 1
            res = x["res"]
            if res["status"] == "timeout":
                timeouts += 1
            if res.get("pre_effects"):
                unattributed.append({"before_call": x["id"], "fn": x["fn"], "effects": res["pre_effects"]})
            evs = res["events"]
            if any(e["e"] == "os" for e in evs):
                reached.add((x["fn"], tuple(x["path"])))
            need = sum(1 for k in x["path"] if k in ("go", "spawn", "clone", "cclone", "clonecall"))
            if res["status"] in ("ok", "err") and sum(1 for e in evs if e["e"] == "vmclone") != need:
                clone_mismatch += 1

    # ---- verdicts: a disagreement is re-executed once (fresh single worker) before it is reported
    if bad_by_id:
        again = [reqs_by_id[i] for i in sorted(bad_by_id)][:200]
        rows2 = normalise(cx, run_driver(cx, drv, again, "recheck", procs=1), reqs_by_id)
        out2 = validate(cx, [to_trace(x) for x in rows2], "trace_recheck", nsh)
        still = {}
        for b in out2["BAD"]:
            still.setdefault(b["id"], []).append(b)
        res2 = {x["id"]: x["res"] for x in rows2}
        per_member = {}
        for i in sorted(bad_by_id):
            q = reqs_by_id[i]
            if i not in still:
                cx.notes.append("disagreement on %s in %s not reproduced: %s" % (q["fn"], q["path"], bad_by_id[i][0]["kind"]))
                continue
            kinds = tuple(sorted(set(b["kind"] + ":" + (b["ev"].get("m") or b["ev"].get("k") or "") for b in still[i])))
            per_member.setdefault((q["fn"], kinds), []).append(i)
        # one violation per member and kind of disagreement, witnessed by its smallest context
        for (fn, kinds), ids in sorted(per_member.items()):
            ids.sort(key=lambda i: (len(reqs_by_id[i]["path"]), reqs_by_id[i]["path"], reqs_by_id[i]["src"]))
            q = reqs_by_id[ids[0]]
            ctxs = sorted(set(("/".join(reqs_by_id[i]["path"]) or "top") + "@" + reqs_by_id[i]["src"] for i in ids))
            cx.violation("%s (variant %s) is not mediated by the host OS: %s; in %d context(s): %s" % (
                fn, q["v"], ", ".join(kinds), len(ctxs), " ".join(ctxs[:12])),
                {"leg": "trace", "request": q, "bad": still[ids[0]][:6], "observed": res2.get(ids[0]), "contexts": ctxs})
        if len(bad_by_id) > 200:
            cx.notes.append("%d further disagreements not re-executed" % (len(bad_by_id) - 200))
    for b in ref_bad:
        # the source inventory is deterministic: re-read the file to confirm the reference
        e = b["ev"]
        src_file = os.path.join(vlib.REPO, e["f"])
        txt = open(src_file).read() if os.path.exists(src_file) else ""
        if "." + e["m"] in txt:
            cx.violation("%s references %s.%s (%s) directly, bypassing the host OS" % (e["f"], e["a"], e["m"], e["k"]),
                         {"leg": "source-inventory", "ref": e})
        else:
            cx.notes.append("direct reference %s not confirmed in %s" % (e["m"], e["f"]))

    # ---- negative self-test of the V leg: corrupted traces must be rejected
    def E(e, m="", f="", k="", a=""):
        return {"e": e, "m": m, "f": f, "k": k, "a": a}
    base = {"id": 0, "fn": "os.getenv", "v": "d", "ev": [E("start", k="withos"), E("vmclone"), E("enter", k="spawn"),
                                                            E("call"), E("os", m="Getenv"), E("end", k="ok")]}

    def corrupt(i, f):
        t = json.loads(json.dumps(base))
        t["id"] = i
        f(t)
        return t
    neg = [
        corrupt(1, lambda t: t.__setitem__("ev", [e for e in t["ev"] if e["e"] != "os"])),                       # required-missing
        corrupt(2, lambda t: t["ev"].insert(len(t["ev"]) - 1, {"e": "os", "m": "ReadFile", "f": "", "k": "", "a": ""})),  # not-allowed
        corrupt(3, lambda t: t["ev"].insert(len(t["ev"]) - 1, {"e": "real_effect", "m": "", "f": "", "k": "env_changed", "a": ""})),
        {"id": 4, "fn": "<scan>", "v": "", "ev": [{"e": "direct_ref", "m": "Getenv", "f": "modules/os/os.go", "k": "func", "a": "os"}]},
        corrupt(5, lambda t: None),                                                                             # control: accepted
    ]
    outn = validate(cx, neg, "trace_negative", 1)
    got = {b["id"]: b["kind"] for b in outn["BAD"]}
    want = {1: "required-missing", 2: "not-allowed", 3: "real-effect", 4: "direct-ref"}
    if got != want:
        raise vlib.Inconclusive("negative self-test of TraceOSMed failed: expected %s got %s" % (want, got))

    if unattributed and not cx.violations:
        # a real effect that appeared between two calls cannot be charged to a member
        raise vlib.Inconclusive("real effects observed between calls (asynchronous, unattributed): %s" % json.dumps(unattributed[:3]))

    # ---- evidence
    notex_members = sorted(notex)
    for x in rows[:4]:
        cx.sample({"fn": x["fn"], "context": "/".join(x["path"]) or "top", "src": x["src"], "status": x["res"]["status"],
                   "events": [e["m"] or (e["e"] + ":" + e["k"]) for e in x["res"]["events"]]})
    covered_members = [m for m in members if m not in uncovered and m in RECIPES]
    cx.cover.update({
        "members_in_real_inventory": len(members),
        "members_covered_by_delegates": len(covered_members),
        "uncovered_members": sorted(uncovered | set(no_recipe)),
        "members_without_recipe": sorted(no_recipe),
        "not_exercised": {k: sorted(v)[:8] for k, v in sorted(notex.items())},
        "contexts_from_tlc": nestings_all,
        "contexts_not_executable": ["/".join(p) for p in skipped],
        "contexts_executed": len(set(tuple(q["path"]) for q in reqs)),
        "os_sources": sources,
        "evaluations": calls_total,
        "distinct_nontrivial": len(reached),
        "traces_validated_against_impl": calls_total,
        "events_validated": total_events,
        "model_states_OSMed": m_states,
        "source_files_scanned": scanned,
        "direct_refs_found": ["%s.%s(%s) in %s" % (d["a"], d["m"], d["k"], d["f"]) for d in drefs],
        "timeouts": timeouts,
        "vm_clone_count_mismatches": clone_mismatch,
        "gomaxprocs_runs": [n for n, _ in runs],
        "exhaustive": False,
        "rule": "members = real inventory (module attribute maps of os/filepath/fmt, global builtins of modules/os and modules/fmt, "
                "case labels of (*File).GetAttr + iteration); contexts = nestings of go/spawn/clone/cclone/import_body/import_fn "
                "exported by TLC from OSMed (depth<=1 for all members%s); each (member, variant, context, OS source) is one call "
                "through a script with a recording os.OS in a sandbox with sentinels; non-trivial = distinct (member, context) "
                "whose call reached the host OS at least once" % (
                    ", depth 2 for %d representatives" % len(SAMPLE) if quick else ", depth 2 and 3 for all"),
    })
    if clone_mismatch:
        cx.notes.append("%d calls where the number of VerifEvent(clone) events differs from the context's clone count" % clone_mismatch)
    if notex_members:
        cx.notes.append("members whose call failed before reaching the OS (not exercised): %s" % ", ".join(notex_members))
    cx.assumptions += [
        "the importer (reads module sources from the host's disk), exec, http/net/dns are outside the property",
        "a read of real data is detected through the sandbox marker in results, output and OS arguments; real reads that "
        "leave no trace in the result are detected only by the missing required host-OS event",
        "Delegates is the reading of the module sources at the pinned tree (DESIGN.md Appendix D); additional Stat calls are tolerated",
    ]
