"""C20 - layout and comments never change meaning; diagnostics point into the source (DESIGN.md 5, C20).

(i)   Lexer.tla: all strings over a 14-class alphabet up to length N through the real lexer; token stream and
      positions must be the specified ones; TLC also checks the layout lemma and position well-formedness of the
      spec on every string (leg M).
(ii)  Layout.tla: the permitted (gap class, insertion) pairs; every one applied at every token gap of every program
      (plus CRLF and random multi-gap combinations): syntax tree and bytecode must equal the original's.
(iii) TraceDiag.tla: parse/compile errors of token-mutated programs: position exists, quoted line verbatim,
      message rendering returns.
"""
import json
import re

import vlib
import langlib

TEXTS = {
    "space": " ", "tab": "\t", "block": " /* c */ ", "block2": " /* a *//* b */ ", "blockml": " /* l1\n l2 */ ",
    "crlf": "\r\n", "crlfcomment": " // note\r\n",
    "blockstars": " /**/ ", "blockdoc": " /** d **/ ", "blockslash": " /*/ x /*/ ", "blockslash2": " /*/ note */ ",
    "newline": "\n", "linecomment": " // note\n", "hashcomment": " # note\n", "blankline": "\n\n",
}


def run(cx):
    cx.level = "model_checking"
    lay = cx.go_build("layout")
    lang = cx.go_build("lang")
    # ---------------- (i) lexer conformance + spec lemmas
    maxlen = 4 if cx.quick() else 5
    lexp = cx.path("lex.ndjson")
    cx.run([lay, "lex", "-maxlen", str(maxlen), "-out", lexp], timeout=2400)
    lex_rows = []
    for r in vlib.read_ndjson(lexp):
        if r["res"].get("k") != "ok":
            cx.violation("the lexer panicked on %r" % "".join(map(chr, r["src"])), {"leg": "lex", "src": r["src"], "res": r["res"]})
            continue
        lex_rows.append({"id": r["id"], "src": r["src"], "toks": r["res"]["toks"], "err": r["res"]["err"]})
    by_id = {r["id"]: r for r in lex_rows}
    mism, _ = langlib.tlc_conform(cx, lex_rows, spec="LexCheck", prefix="lex", strip=(), nshards=vlib.NCPU)
    lemma = []
    for d in cx_dirs(cx, "tlc_lex_"):
        for ln in open(cx.path(d, "tlc.out")):
            m = re.match(r'^<<"SPECLEMMA", (\d+), "(\w+)">>$', ln.strip())
            if m:
                lemma.append((int(m.group(1)), m.group(2)))
    if lemma:
        i, which = lemma[0]
        raise vlib.Inconclusive("Lexer.tla violates its own %s lemma on %r (spec error, %d cases)" % (
            which, "".join(map(chr, by_id[i]["src"])), len(lemma)))
    for i, specjs in mism[:50]:
        r = by_id[i]
        text = "".join(map(chr, r["src"]))
        cx.violation("the lexer's token stream differs from Lexer.tla for %r: observed=%s specified=%s" % (
            text, json.dumps({"toks": [(t["type"], "".join(map(chr, t["lit"])), t["sl"], t["sc"]) for t in r["toks"]], "err": r["err"]})[:300],
            specjs[:300]), {"leg": "lex", "src": text, "observed": r, "specified": specjs})
    cx.sample({"leg": "lex", "src": "".join(map(chr, lex_rows[len(lex_rows) // 2]["src"])), "tokens": [t["type"] for t in lex_rows[len(lex_rows) // 2]["toks"]]})

    # ---------------- (ii) layout variants
    r = cx.tlc("Layout", workers=1, name="layout_table")
    cx.tlc_must_pass(r, "Layout")
    table = {}
    for ln in r.lines:
        m = re.match(r'^<<"PERMITTED", "(\w+)", "(.*)">>$', ln.strip())
        if m:
            table[m.group(1)] = sorted(json.loads(m.group(2).replace('\\"', '"')))
    if set(table) != {"any", "nl", "stmt"}:
        raise vlib.Inconclusive("Layout.tla did not emit the permitted-insertion table")
    tpath = cx.path("table.json")
    json.dump({"table": table, "texts": TEXTS}, open(tpath, "w"))
    nprog = 400 if cx.quick() else 8000
    progs = cx.path("progs.ndjson")
    cx.run([lang, "gen", "-seed", str(cx.seed * 1000 + 20), "-n", str(nprog), "-depth", "3", "-budget", "50", "-noobs", "-out", progs])
    # plus the enumerated operator pairs (small, every operator)
    pairs = langlib.gen_family(cx, "pairs", 0)
    prog_rows = vlib.read_ndjson(progs)
    step = 1 if not cx.quick() else 6
    for i, a in enumerate(pairs[::step]):
        prog_rows.append({"id": 100000 + i, "ast": a})
    # every second random program and every operator pair (again) with the minimal parentheses
    for p in prog_rows:
        p["min"] = p["id"] < 100000 and p["id"] % 2 == 1
    for i, a in enumerate(pairs[::step]):
        prog_rows.append({"id": 200000 + i, "ast": a, "min": True})
    allp = cx.path("allprogs.ndjson")
    vlib.write_ndjson(allp, [{"id": p["id"], "ast": p["ast"], "min": p["min"]} for p in prog_rows])
    vout = cx.path("variants.ndjson")
    cx.run([lay, "variants", "-in", allp, "-table", tpath, "-seed", str(cx.seed), "-out", vout], timeout=3000)
    tried = gaps = nprogs = vdead = 0
    for row in vlib.read_ndjson(vout):
        res = row["res"]
        if res.get("k") == "nobase":
            continue
        if res.get("k") != "ok":
            cx.notes.append("variants case %s: %s" % (row["id"], str(res)[:150]))
            vdead += 1
            continue
        nprogs += 1
        tried += res["tried"]
        gaps += res["gaps"]
        for b in (res.get("bad") or [])[:2]:
            # re-parse once more in this process is not possible; the worker result is deterministic, report it
            cx.violation("layout changes the program (%s, %s): variant=%r original=%r" % (
                b["kind"], b["verdict"][:120], b["src"][:300], res["base"][:300]),
                {"leg": "layout", "kind": b["kind"], "gap": b["gap"], "verdict": b["verdict"], "variant": b["src"], "original": res["base"]})
    cx.sample({"leg": "layout", "permitted": table})
    cx.alive(vdead, nprogs + vdead, "layout variants")

    # ---------------- (iii) diagnostics
    dout = cx.path("diag.ndjson")
    nmut = 12 if cx.quick() else 40
    cx.run([lay, "diag", "-in", allp, "-seed", str(cx.seed), "-n", str(nmut), "-out", dout], timeout=3000)
    events = []
    nmutants = 0
    ddead = dall = 0
    for row in vlib.read_ndjson(dout):
        res = row["res"]
        if res.get("k") == "gopanic":
            cx.violation("diagnosing a mutated program panicked: %s" % str(res.get("msg"))[:200], {"leg": "diag", "res": res})
            continue
        if res.get("k") != "ok":
            cx.notes.append("diag case %s: %s" % (row["id"], str(res)[:150]))
            ddead += 1
            continue
        dall += 1
        for ev in res.get("events") or []:
            ev["id"] = len(events)
            for k in ("line", "col", "eline", "ecol"):
                ev.setdefault(k, 0)
            ev.setdefault("quoted", [])
            ev.setdefault("haspos", False)
            events.append(ev)
    cx.alive(ddead, dall + ddead, "diagnostics of mutated programs")
    nopos = [e for e in events if not e["haspos"] and e["stage"] != "panic"]
    dmis = []
    if events:
        langlib.tlc_conform(cx, events, spec="TraceDiag", prefix="diag", strip=("msg",))
        for d in cx_dirs(cx, "tlc_diag_"):
            for ln in open(cx.path(d, "tlc.out")):
                m = re.match(r'^<<"BADDIAG", (\d+), "(.*)">>$', ln.strip())
                if m:
                    dmis.append((int(m.group(1)), m.group(2)))
    seen = set()
    for i, why in dmis:
        e = events[i]
        key = (why, e["stage"])
        if key in seen and len(seen) > 6:
            continue
        seen.add(key)
        text = "".join(map(chr, e["src"]))
        cx.violation("diagnostic is not well formed (%s): source=%r stage=%s line=%s col=%s quoted=%r %s" % (
            why, text[:300], e["stage"], e.get("line"), e.get("col"), "".join(map(chr, e.get("quoted", []))), e.get("panic", "")),
            {"leg": "diag", "why": why, "event": e, "src": text})
    # known finding: compile-stage errors without a position (classified by signature; witness replayed)
    known = [f for f in cx.known_findings() if f["id"] == "compile-error-without-position"]
    if known:
        wsrc = known[0]["witness"]["src"]
        wp = cx.path("witness.ndjson")
        vlib.write_ndjson(wp, [{"id": 0, "ast": [{"k": "raw", "src": wsrc}]}])
        wo = cx.path("witness.out.ndjson")
        cx.run([lay, "diag", "-in", wp, "-seed", "0", "-n", "0", "-witness", "-out", wo])
        wev = [ev for row in vlib.read_ndjson(wo) for ev in (row["res"].get("events") or [])]
        if any(ev["stage"] == "compile" and not ev.get("haspos") for ev in wev):
            cx.report_known(known[0])
            nopos = [e for e in nopos if e["stage"] != "compile"]
        else:
            cx.notes.append("known finding compile-error-without-position: witness no longer fails")
    for e in nopos[:3]:
        text = "".join(map(chr, e["src"]))
        cx.violation("a %s error carries no line and column: source=%r message=%r" % (e["stage"], text[:300], e.get("msg", "")[:200]),
                     {"leg": "diag", "why": "no position", "event": e, "src": text})
    if events:
        e = events[len(events) // 2]
        cx.sample({"leg": "diag", "src": "".join(map(chr, e["src"]))[:200], "stage": e["stage"], "line": e["line"], "col": e["col"]})
    nontriv = len([1 for r in lex_rows if len(r["toks"]) >= 3]) + nprogs
    cx.cover.update({
        "evaluations": len(lex_rows) + tried + len(events), "distinct_nontrivial": nontriv,
        "traces_validated_against_impl": len(lex_rows) + len(events),
        "lexer_strings": len(lex_rows), "lexer_max_length": maxlen, "exhaustive": True,
        "layout_programs": nprogs, "layout_gaps": gaps, "layout_variants": tried,
        "diagnostic_events": len(events), "diagnostics_without_position": len(nopos),
        "rule": "(i) every string over Lexer.tla's 14-class alphabet up to the length bound (exhaustive); (ii) every permitted "
                "(gap class, insertion) pair of Layout.tla at every token gap of random programs and of the enumerated operator pairs, "
                "plus CRLF and random multi-gap variants; (iii) 4 kinds of single-token mutations per program, every reported error an event; "
                "non-trivial = lexer strings with >= 2 tokens before EOF + programs with at least one gap",
    })
    cx.assumptions += ["the renderer's classification of token gaps (harness/ast/render.go: NL after comma / binary operator / pipe, "
                       "Stmt at statement boundaries) is trusted",
                       "columns of the EOF token are not compared"]


def cx_dirs(cx, prefix):
    import os
    return sorted(d for d in os.listdir(cx.work) if d.startswith(prefix))
