"""C06 - cancelling the context stops the evaluation and everything it started (DESIGN.md 5, C06).

M: VMRun.tla: the repaired design satisfies the liveness properties CancelStopsRun and CancelStopsClones
   (weak fairness of every process, no state constraint); the pinned design (clones never armed) must
   violate CancelStopsClones (non-vacuity).
G: VMRunScen.tla enumerates scenario shapes (main loop / callback / blocking form x spawn tree x
   cancellation instant); each is instantiated as a script with the host builtin tick(id) and run on the
   real pipeline; observed: the call returns the context's error within a generous bound and no tick
   counter advances after it has returned.
"""
import json

import vlib

MAIN = {
    "for": "for { tick(0) }",
    "for3": "for i := 0; i < 2000000000; i++ { tick(0) }",
    "forrange": "for i := range 2000000000 { tick(0) }",
    "forcond": "x := 1\nfor x > 0 { tick(0) }",
    "recursion": "func r(n) { tick(0)\n if n > 0 { r(n - 1) } }\nfor { r(200) }",
    # a binary call tree of depth 62: practically endless, and not one backward jump is ever executed
    "finishes": "tick(0)\n1",
    "calltree": "func ct(n) { tick(0)\n if n > 0 { ct(n - 1)\n ct(n - 1) } }\nct(62)",
    "mapcb": "for { [1, 2, 3].map(func(x) { tick(0)\n x }) }",
    "eachcb": "[1].each(func(x) { for { tick(0) } })",
    "filtercb": "[1, 2].filter(func(x) { for { tick(0) } })",
    "sortedcb": "sorted([3, 1, 2], func(a, b) { for { tick(0) } })",
    "trycb": "try(func() { for { tick(0) } })\nfor { tick(0) }",
    # programs that come to their END once the cancellation has cut their last construct short: the call still
    # returns the context's error, not success (try recovers the halted function's error; an interrupted sleep or
    # channel iteration returns an ordinary value)
    "tryfin": "try(func() { for { tick(0) } }, 7)",
    "sleepfin": "tick(0)\ntick(0)\ntick(0)\nimport time\ntime.sleep(30)\n42",
    "iterfin": "tick(0)\ntick(0)\ntick(0)\nc := chan()\nfor _, v := range c { tick(0) }\n42",
    "recvtryfin": "tick(0)\ntick(0)\ntick(0)\nc := chan()\ntry(func() { c.receive() }, 7)",
    "send": "tick(0)\ntick(0)\ntick(0)\nc := chan()\nc <- 1\nfor { tick(0) }",
    "recv": "tick(0)\ntick(0)\ntick(0)\nc := chan()\nv := <-c\nfor { tick(0) }",
    "chaniter": "tick(0)\ntick(0)\ntick(0)\nc := chan()\nfor _, v := range c { tick(0) }\nfor { tick(0) }",
    "sleep": "tick(0)\ntick(0)\ntick(0)\nimport time\ntime.sleep(30)\nfor { tick(0) }",
    "sendfull": "tick(0)\ntick(0)\ntick(0)\nc := chan(2)\nc <- 1\nc <- 2\nc <- 3\nfor { tick(0) }",
    "sendmeth": "tick(0)\ntick(0)\ntick(0)\nc := chan()\nc.send(1)\nfor { tick(0) }",
    "sendfullmeth": "tick(0)\ntick(0)\ntick(0)\nc := chan(1)\nc.send(1)\nc.send(2)\nfor { tick(0) }",
    "recvmeth": "tick(0)\ntick(0)\ntick(0)\nc := chan(1)\nv := c.receive()\nfor { tick(0) }",
    "iterbuf": "tick(0)\ntick(0)\ntick(0)\nc := chan(2)\nc <- 1\nfor _, v := range c { tick(0) }\nfor { tick(0) }",
    "tryhandler": "try(func() { error(\"x\") }, func(e) { for { tick(0) } })\nfor { tick(0) }",
    "defercb": "func f() {\ndefer func() { for { tick(0) } }()\nreturn 1\n}\nf()\nfor { tick(0) }",
    "wait": "tick(0)\ntick(0)\ntick(0)\nt := spawn(func() { for { tick(7) } })\nt.wait()\nfor { tick(0) }",
}
BODY = {"loop": "for { tick(%d) }", "sleepy": "for { tick(%d)\n time.sleep(0.002) }", "recv": "tick(%d)\ncq := chan()\nvq := <-cq",
        "sendfull": "tick(%d)\ncq := chan(1)\ncq <- 1\ncq <- 2", "sendthenloop": "cq := chan(1)\ncq <- 1\nfor { tick(%d) }",
        "calltree": "func cq(n) { tick(%d)\n if n > 0 { cq(n - 1)\n cq(n - 1) } }\ncq(62)"}


def script(s):
    t = s["tree"]
    parts = ["import time"]
    d = t["depth"]
    for k in range(d, 0, -1):
        inner = ""
        if k < d:
            inner = spawn_stmt(t["form"], "w%d" % (k + 1)) + "\n"
        parts.append("func w%d() {\n%s%s\n}" % (k, inner, BODY[t["body"]] % k))
    if d > 0:
        parts.append(spawn_stmt(t["form"], "w1"))
    parts.append(MAIN[s["main"]])
    return "\n".join(parts)


def spawn_stmt(form, fn):
    return {"go": "go %s()" % fn, "spawn": "spawn(%s)" % fn, "fnspawn": "%s.spawn()" % fn}[form]


HANG_S = 20
# known finding ctx-error-identity-lost-across-builtins: exactly these texts (see known_findings.json)
KNOWN_CTXTEXT = ("context canceled", "context deadline exceeded", "wait error: context canceled", "wait error: context deadline exceeded")


def judge(res, bound_ms):
    """Positive evidence of a violation in one observation, or None."""
    if res.get("k") == "crash" and "all goroutines are asleep" in (res.get("stderr") or ""):
        return "the call can never return: the Go runtime found every goroutine blocked (deadlock) after the cancellation was due"
    if res.get("k") == "hang":
        return "the call did not return within %d s of its start (cancellation was due within milliseconds)" % HANG_S
    if res.get("k") != "ok":
        return None
    if res.get("advanced"):
        return "script code kept running after the call returned: ticks advanced %s" % json.dumps(res["advanced"])
    if res.get("err") == "nil" and res.get("after_return"):
        return None   # the cancellation came after the call had returned: success is the specified outcome
    if res.get("after_return") and not res.get("cancelled_after"):
        return "the main code finishes at once, yet the call ended as %r %r before the context was cancelled" % (res.get("err"), res.get("msg", "")[:100])
    if res.get("err") == "nil":
        return "the call returned success although its context was cancelled"
    if res.get("err") == "ctxtext" and res.get("msg") not in KNOWN_CTXTEXT:
        return "the call returned another error that merely quotes the context's error: %r" % res.get("msg", "")[:120]
    if res.get("err") == "other" and res.get("cancelled"):
        return "the call returned %r instead of the context's error" % res.get("msg", "")[:120]
    if res.get("cancelled") and res.get("after_cancel_ms", 0) > bound_ms:
        return "the call returned %d ms after the cancellation (bound %d ms)" % (res["after_cancel_ms"], bound_ms)
    return None


def run(cx):
    cx.level = "model_checking"
    drv = cx.go_build("vmrun")
    # ---- M
    r = cx.tlc("VMRun", workers=8, name="vmrun_mc", timeout=1800)
    cx.tlc_must_pass(r, "VMRun (repaired design)")
    cfg = ("SPECIFICATION Spec\nCONSTANTS Faithful = TRUE\n MaxRuns = 1\n Steps = 2\n MaxClones = 1\n"
           "PROPERTY CancelStopsClones\nCHECK_DEADLOCK FALSE\n")
    rf = cx.tlc("VMRun", cfg_text=cfg, workers=4, name="vmrun_faithful_live")
    if not rf.property_violated:
        raise vlib.Inconclusive("the pinned design (clones never armed) no longer violates CancelStopsClones: the property would be vacuous")
    # ---- G
    maxd = 2 if cx.quick() else 3
    gcfg = "CONSTANT MaxDepth = %d\nINIT Init\nNEXT Next\nINVARIANT Emit\nCHECK_DEADLOCK FALSE\n" % maxd
    rs = cx.tlc("VMRunScen", cfg_text=gcfg, workers=2, name="scen_gen")
    cx.tlc_must_pass(rs, "VMRunScen")
    scens = [json.loads(x) for x in rs.tuples("SCEN")]
    if not scens:
        raise vlib.Inconclusive("VMRunScen emitted no scenarios")
    settle = 120
    rows = []
    for i, sc in enumerate(scens):
        s = sc["scen"]
        at = {"deadline": 0, "tick3": 3, "tick40": 40, "reuse_idle": 1000000, "reuse_during": 3, "reuse_wait": 0, "reuse_busy": 3, "afterreturn": 1000000}[s["at"]]
        row = {"id": i, "scen": s, "src": "1" if s["main"] == "crosswait" else script(s), "cancel_at": at, "deadline_ms": 60, "settle_ms": settle}
        if s["at"].startswith("reuse_"):
            row["reuse"] = s["at"][6:]
        if s["at"] == "afterreturn":
            row["after_return"] = True
        rows.append(row)
    sin = cx.path("scen.ndjson")
    vlib.write_ndjson(sin, rows)
    sout = cx.path("scen.out.ndjson")
    cx.run([drv, "cancel", "-in", sin, "-out", sout, "-j", str(max(4, vlib.NCPU // 2)), "-per", str(HANG_S)], timeout=3000)
    bound = 3000
    suspects = []
    nrun = 0
    n_known_ctxtext = 0
    ndead = nall = 0
    for r_ in vlib.read_ndjson(sout):
        res = r_["res"]
        nall += 1
        if res.get("k") not in ("ok", "hang") and not judge(res, bound):
            cx.notes.append("scenario %s: driver result %s" % (r_["id"], str(res)[:150]))
            ndead += 1
            continue
        nrun += 1
        if res.get("err") == "ctxtext" and res.get("msg") in KNOWN_CTXTEXT:
            n_known_ctxtext += 1
        why = judge(res, bound)
        if why:
            suspects.append((r_["id"], why))
    cx.alive(ndead, nall, "cancellation scenarios")
    # quorum: a suspect scenario is re-run 3 times alone (less parallelism, longer settle)
    if suspects:
        # one representative per (main form or spawn, kind of observation) first; at most 24 re-executions x 3
        seen_keys, first, rest = set(), [], []
        for i, why in suspects:
            sc_ = rows[i]["scen"]
            key = (sc_["main"] if sc_["tree"]["depth"] == 0 else "spawn", why[:40])
            (rest if key in seen_keys else first).append((i, why))
            seen_keys.add(key)
        suspects = (first + rest)[:24]
        rein = cx.path("re.ndjson")
        rer = []
        for i, _ in suspects[:60]:
            for _k in range(3):
                x = dict(rows[i])
                x["settle_ms"] = 250
                rer.append(x)
        vlib.write_ndjson(rein, rer)
        reout = cx.path("re.out.ndjson")
        cx.run([drv, "cancel", "-in", rein, "-out", reout, "-j", "3", "-per", str(HANG_S)], timeout=3000)
        again = {}
        for r_ in vlib.read_ndjson(reout):
            again.setdefault(r_["id"], []).append(judge(r_["res"], bound))
        reported = set()
        for i, why in suspects[:60]:
            hits = [w for w in again.get(i, []) if w]
            if len(hits) < 2:
                cx.notes.append("scenario %d: %s - not reproduced in 2 of 3 re-runs" % (i, why))
                continue
            s = rows[i]["scen"]
            key = (s["main"] if s["tree"]["depth"] == 0 else "spawn", hits[0][:40])
            if key in reported and len(reported) > 8:
                continue
            reported.add(key)
            cx.violation("cancellation scenario %s: %s (reproduced %d/3); script=%r" % (
                json.dumps(s), hits[0], len(hits), rows[i]["src"][:400]),
                {"leg": "scenario", "scenario": s, "src": rows[i]["src"], "why": hits, "cancel_at": rows[i]["cancel_at"]})
    for f in cx.known_findings():
        if f["id"] == "ctx-error-identity-lost-across-builtins":
            if n_known_ctxtext:
                cx.report_known(f)
            else:
                cx.notes.append("known finding %s: no scenario shows it any more" % f["id"])
    cx.cover["returns_with_text_of_context_error_only"] = n_known_ctxtext
    cx.sample({"scenario": rows[len(rows) // 2]["scen"], "src": rows[len(rows) // 2]["src"]})
    cx.cover.update({
        "evaluations": nrun, "distinct_nontrivial": len([1 for r_ in rows if r_["scen"]["tree"]["depth"] > 0 or r_["scen"]["main"] not in ("for", "for3")]),
        "traces_validated_against_impl": nrun, "scenarios": len(rows), "max_spawn_depth": maxd, "exhaustive": True,
        "prompt_return_bound_ms": bound,
        "rule": "VMRunScen: 23 main forms (loops, recursion with and without a loop around it, callbacks in list.map/each/filter/sorted/try/try-handler/defer, blocked send / receive (statement and method forms, unbuffered and full buffered) / channel "
                "iteration / sleep / thread wait) x spawn trees (depth 0..D, 3 spawn forms, 6 goroutine bodies) x cancellation instants "
                "(deadline, 3rd tick, 40th tick), all enumerated by TLC; non-trivial = scenario with a spawned goroutine or a non-plain-loop main",
    })
    cx.assumptions += ["promptness bound is generous (3 s) and a timing observation counts only when reproduced in 2 of 3 isolated re-runs",
                       "ticks are counted by a host builtin; 'no script code keeps executing' = no counter advances between two samples after return"]
