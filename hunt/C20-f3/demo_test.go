package risor_test

import (
	"context"
	"fmt"
	"testing"

	"github.com/risor-io/risor"
	"github.com/risor-io/risor/parser"
)

// "if" / "switch" whose condition is missing because the line (or the input)
// ends right after the keyword is a syntax error. It must be reported with a
// position; the parser must neither build a tree with nil nodes nor drop the
// statement without a word.
func TestC20HuntF3MissingConditionNilNode(t *testing.T) {
	for _, src := range []string{
		"print(1, if\n2)\n",     // valid: print(1,\n2)   + inserted token "if"
		"print(1, switch\n2)\n", // valid: print(1,\n2)   + inserted token "switch"
	} {
		t.Run(fmt.Sprintf("%q", src), func(t *testing.T) {
			defer func() {
				if r := recover(); r != nil {
					t.Errorf("risor.Eval(%q) panicked: %v", src, r)
				}
			}()
			_, err := risor.Eval(context.Background(), src)
			if err == nil {
				t.Errorf("risor.Eval(%q): no error", src)
				return
			}
			if _, ok := err.(parser.ParserError); !ok {
				t.Errorf("risor.Eval(%q): want a syntax error with a position, got %T: %v", src, err, err)
			}
		})
	}
}

func TestC20HuntF3MissingConditionSwallowed(t *testing.T) {
	for _, src := range []string{
		"x := 1\nreturn if",                  // valid: "x := 1\nreturn" + inserted token "if"
		"x := 1\nreturn switch\n",            // same with "switch"
		"func f() {\n  return if\n  1\n}\n",  // valid: return / 1 on two lines, + "if"
		"f := func(a = if\n  x {}\n",         // parses as func() {}
	} {
		prog, err := parser.Parse(context.Background(), src)
		if err == nil {
			t.Errorf("%q: syntax error not reported, parsed as %q", src, prog.String())
			continue
		}
		pe, ok := err.(parser.ParserError)
		if !ok {
			t.Errorf("%q: want parser error, got %T", src, err)
			continue
		}
		_ = pe.FriendlyErrorMessage()
	}
}
