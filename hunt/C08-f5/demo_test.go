package risor_test

import (
	"context"
	"errors"
	"fmt"
	"strings"
	"testing"

	"github.com/risor-io/risor"
)

type F5Host struct {
	Err  error
	Errs []error
	Last map[string]error
}

func f5Eval(src string, h *F5Host) (res any, err error) {
	defer func() {
		if r := recover(); r != nil {
			err = fmt.Errorf("PANIC out of risor.Eval: %v", r)
		}
	}()
	return risor.Eval(context.Background(), src, risor.WithGlobal("h", h))
}

// Sanity: a non-nil error field is readable.
func TestF5ErrorFieldBaseline(t *testing.T) {
	_, err := f5Eval(`type(h.Err)`, &F5Host{Err: errors.New("boom")})
	if err != nil && strings.Contains(err.Error(), "panic") {
		t.Fatalf("unexpected: %v", err)
	}
}

// The zero value of an error-typed field (nil) must read as nil or be refused
// cleanly, not panic.
func TestF5NilErrorField(t *testing.T) {
	res, err := f5Eval(`h.Err == nil`, &F5Host{})
	if err != nil {
		t.Fatalf("reading a nil error field: %v", err)
	}
	if fmt.Sprint(res) != "true" {
		t.Fatalf("nil error field read as %v", res)
	}
}

func TestF5NilErrorElements(t *testing.T) {
	for _, src := range []string{`len(h.Errs)`, `len(h.Last)`} {
		h := &F5Host{Errs: []error{nil}, Last: map[string]error{"a": nil}}
		res, err := f5Eval(src, h)
		if err != nil {
			t.Errorf("%s: %v", src, err)
		} else if fmt.Sprint(res) != "1" {
			t.Errorf("%s = %v", src, res)
		}
	}
}
