package risor_test

import (
	"context"
	"testing"

	"github.com/risor-io/risor"
)

func c15f3Eval(t *testing.T, src string) string {
	t.Helper()
	v, err := risor.Eval(context.Background(), src)
	if err != nil {
		return "error: " + err.Error()
	}
	return v.Inspect()
}

const c15f3Setup = `
a := time.parse(time.RFC3339, "2024-01-01T01:00:00+01:00")
b := time.parse(time.RFC3339, "2024-01-01T00:00:00Z")
`

// a and b are the same instant written with two zone offsets.
func TestC15F3_SortedNotIdempotentAndListOrderNotAPreorder(t *testing.T) {
	// sorted() must be idempotent on mutually comparable input
	once := c15f3Eval(t, c15f3Setup+`sorted([a, b])`)
	twice := c15f3Eval(t, c15f3Setup+`sorted(sorted([a, b]))`)
	if once != twice {
		t.Errorf("sorted is not idempotent:\n sorted(xs)         = %s\n sorted(sorted(xs)) = %s", once, twice)
	}
	// it must be stable: a and b are not < one another in a consistent order, so must keep the input order
	// within list, < is the strict part of a total preorder: never both x<y and y<x
	lt := c15f3Eval(t, c15f3Setup+`[[a] < [b], [b] < [a], [a] == [b], [a] <= [b], [a] >= [b]]`)
	if lt != "[false, false, true, true, true]" && lt != "[true, false, false, true, false]" && lt != "[false, true, false, false, true]" {
		t.Errorf("[[a] < [b], [b] < [a], [a] == [b], [a] <= [b], [a] >= [b]] = %s: not a total preorder that agrees with ==", lt)
	}
	sc := c15f3Eval(t, c15f3Setup+`[a < b, b < a, a == b]`)
	if sc == "[true, true, false]" {
		t.Errorf("[a < b, b < a, a == b] = %s: both a<b and b<a", sc)
	}
}
