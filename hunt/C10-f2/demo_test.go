package risor

// Finding 2: a function value that crosses between a spawning VM and one of
// its clones (as a channel message, as a spawn argument of a later spawn, or as
// the result of wait()) cannot be run on the other side when the module it
// belongs to was imported on one side only: the call dies with a Go nil
// pointer panic inside the VM, so wait() hands out "panic: runtime error:
// invalid memory address or nil pointer dereference" instead of the result of
// the spawned call.
//
// Copy into the repository root (package risor) and run:
//   go test -run TestC10FunctionCrossesClone -count=1 -v .

import (
	"context"
	"os"
	"path/filepath"
	"testing"
	"time"
)

func TestC10FunctionCrossesClone(t *testing.T) {
	dir := t.TempDir()
	mod := "base := 100\nfunc triple(x) { return x * 3 + base }\n"
	if err := os.WriteFile(filepath.Join(dir, "mymod.risor"), []byte(mod), 0o644); err != nil {
		t.Fatal(err)
	}
	cases := []struct{ name, src string }{
		{
			// The worker is started first; the spawner imports the module
			// afterwards and sends one of its functions over the channel.
			// The worker receives the value and calls it.
			name: "channel message, receiver is the clone",
			src: `
c := chan(1)
t := spawn(func() { f := <-c; return f(2) })
import mymod
c <- mymod.triple
t.wait()`,
		},
		{
			// The spawned call imports the module and returns one of its
			// functions; the spawner spawns that function with argument 2.
			name: "result of wait() used as the callee of a second spawn",
			src: `
f := spawn(func() { import mymod; return mymod.triple }).wait()
spawn(f, 2).wait()`,
		},
		{
			// Same, the function travels over a channel and is called directly.
			name: "channel message, receiver is the spawner",
			src: `
c := chan(1)
go func() { import mymod; c <- mymod.triple }()
f := <-c
f(2)`,
		},
	}
	for _, tc := range cases {
		t.Run(tc.name, func(t *testing.T) {
			ctx, cancel := context.WithTimeout(context.Background(), 10*time.Second)
			defer cancel()
			res, err := Eval(ctx, tc.src, WithConcurrency(), WithLocalImporter(dir))
			if err != nil {
				t.Fatalf("want 106 (triple(2) = 2*3+100), got error: %v", err)
			}
			if res.Inspect() != "106" {
				t.Fatalf("want 106, got %s", res.Inspect())
			}
		})
	}

	// Control: the very same programs work when the module was imported
	// before the clone was made, so that both sides have it loaded.
	ctx, cancel := context.WithTimeout(context.Background(), 10*time.Second)
	defer cancel()
	res, err := Eval(ctx, `
import mymod
c := chan(1)
t := spawn(func() { f := <-c; return f(2) })
c <- mymod.triple
t.wait()`, WithConcurrency(), WithLocalImporter(dir))
	if err != nil || res.Inspect() != "106" {
		t.Fatalf("control failed: %v %v", res, err)
	}
}
