package risor_test

import (
	"bytes"
	"context"
	"testing"

	"github.com/risor-io/risor"
	"github.com/risor-io/risor/compiler"
	"github.com/risor-io/risor/object"
	"github.com/risor-io/risor/parser"
)

func c17f1Compile(t *testing.T, src string) *compiler.Code {
	t.Helper()
	prog, err := parser.Parse(context.Background(), src)
	if err != nil {
		t.Fatalf("parse: %v", err)
	}
	code, err := compiler.Compile(prog, risor.NewConfig().CompilerOpts()...)
	if err != nil {
		t.Fatalf("compile: %v", err)
	}
	return code
}

func c17f1Eval(t *testing.T, code *compiler.Code) object.Object {
	t.Helper()
	res, err := risor.EvalCode(context.Background(), code)
	if err != nil {
		t.Fatalf("eval: %v", err)
	}
	return res
}

// A string constant written with an octal escape holds the raw byte, which is
// not valid UTF-8. encoding/json silently replaces it by U+FFFD.
func TestC17F1OctalEscapeStringConstant(t *testing.T) {
	for _, src := range []string{
		`"\377"`,                             // plain constant
		`byte_slice("a\200b")`,               // the bytes the program sees
		`func f(s="\377") { return s }; f()`, // default parameter value
		`len(byte_slice("\377"))`,            // 1 byte originally, 3 after reload
	} {
		code := c17f1Compile(t, src)
		data, err := compiler.MarshalCode(code)
		if err != nil {
			t.Fatalf("%s: marshal: %v", src, err)
		}
		loaded, err := compiler.UnmarshalCode(data)
		if err != nil {
			t.Fatalf("%s: unmarshal: %v", src, err)
		}
		want := c17f1Eval(t, code).Inspect()
		got := c17f1Eval(t, loaded).Inspect()
		if want != got {
			t.Errorf("%s: original code gives %q, reloaded code gives %q", src, want, got)
		}
		again, err := compiler.MarshalCode(loaded)
		if err != nil {
			t.Fatalf("%s: marshal of reloaded code: %v", src, err)
		}
		if !bytes.Equal(data, again) {
			t.Errorf("%s: marshalling the reloaded code does not reproduce the bytes", src)
		}
	}
}
