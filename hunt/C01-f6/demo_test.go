package risor_test

import (
	"context"
	"testing"

	"github.com/risor-io/risor"
)

// evalC01SliceAtEnd evaluates a program and renders the outcome: the inspected value,
// or "ERR: " followed by the error text.
func evalC01SliceAtEnd(src string) string {
	v, err := risor.Eval(context.Background(), src)
	if err != nil {
		return "ERR: " + err.Error()
	}
	return v.Inspect()
}

func TestC01HuntSliceAtEnd(t *testing.T) {
	cases := []struct{ name, src, want string }{
		{"tail of a one element list",
			`[1][1:]`,
			`[]`},
		{"full slice of an empty list",
			`[][:]`,
			`[]`},
		{"slice starting at the length",
			`l := [1, 2, 3]; [l[3:], l[3:3], l[:0], l[2:]]`,
			`[[], [], [], [3]]`},
		{"strings",
			"s := `ab`; [s[2:], ``[:], s[:0]]",
			`["", "", ""]`},
		{"recursive sum over tails",
			`func sum(l) { if len(l) == 0 { return 0 }; return l[0] + sum(l[1:]) }; sum([1, 2, 3])`,
			`6`},
	}
	for _, c := range cases {
		got := evalC01SliceAtEnd(c.src)
		if got != c.want {
			t.Errorf("%s\n  program: %s\n  want:    %s\n  got:     %s", c.name, c.src, c.want, got)
		}
	}
}
