package risor_test

// Finding f1 (property C04): a statement accepted as a call argument pushes
// nothing, so the call expression does not add exactly one value.
//
// Copy into the repository root (package directory of github.com/risor-io/risor)
// and run:  go test -run TestC04F1 -count=1 .

import (
	"context"
	"strings"
	"testing"

	"github.com/risor-io/risor"
	"github.com/risor-io/risor/compiler"
	"github.com/risor-io/risor/op"
	"github.com/risor-io/risor/parser"
)

const c04f1Prelude = "x := 0; l := [0]; m := {a: 1}; c := chan(2); f := func(a) { a }\n"

// Every one of these inputs is accepted by the parser and by the compiler.
var c04f1Inputs = []string{
	`f(x = 2)`,
	`f(x += 2)`,
	`f(l[0] = 1)`,
	`f(m.a = 1)`,
	`f(for i := range 2 { })`,
	`f(for y in l { })`,
	`f(import math)`,
	`f(from math import sqrt)`,
	`f(c <- 1)`,
	`l.append(x = 2)`,
	`x | f(x = 2)`,
	`f(1, x = 2)`,
	`for i := range 3 { f(x = i) }`,
}

// Dynamic view: a program that compiles must either evaluate or fail with an
// ordinary Risor error. It must not underflow the operand stack.
func TestC04F1StatementAsCallArgumentRuns(t *testing.T) {
	for _, input := range c04f1Inputs {
		_, err := risor.Eval(context.Background(), c04f1Prelude+input)
		if err == nil {
			continue
		}
		msg := err.Error()
		if strings.HasPrefix(msg, "compile error") || strings.HasPrefix(msg, "parse error") {
			continue // rejecting the input is a fine outcome
		}
		t.Errorf("%-32s accepted by parser and compiler, but evaluation corrupts the operand stack: %v", input, msg)
	}
}

// Static view: the bytecode of the expression statement `f(x = 2)` must push
// the callee and one argument before CALL 1. Here nothing is pushed for the
// argument, so CALL 1 takes the callee as the argument and a slot from below
// as the callee (net effect of the call expression: 0 instead of +1).
func TestC04F1StatementAsCallArgumentBytecode(t *testing.T) {
	ctx := context.Background()
	prog, err := parser.Parse(ctx, "x := 0; f := func(a) { a }; f(x = 2)")
	if err != nil {
		t.Skipf("rejected by the parser (fine): %v", err)
	}
	code, err := compiler.Compile(prog)
	if err != nil {
		t.Skipf("rejected by the compiler (fine): %v", err)
	}
	// Straight-line code: simulate the stack depth.
	depth := 0
	for ip := 0; ip < code.InstructionCount(); {
		oc := code.Instruction(ip)
		info := op.GetInfo(oc)
		operand := 0
		if info.OperandCount > 0 {
			operand = int(code.Instruction(ip + 1))
		}
		switch oc {
		case op.LoadConst, op.LoadGlobal, op.Nil:
			depth++
		case op.StoreGlobal, op.PopTop:
			depth--
		case op.Call:
			if depth < operand+1 {
				t.Fatalf("ip %d: CALL %d with only %d value(s) on the operand stack (needs %d)",
					ip, operand, depth, operand+1)
			}
			depth -= operand
		default:
			t.Fatalf("unexpected opcode %s", info.Name)
		}
		ip += 1 + info.OperandCount
	}
	if depth != 1 {
		t.Fatalf("program leaves %d values on the operand stack, want exactly 1", depth)
	}
}
