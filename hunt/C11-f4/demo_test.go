package risor_test

import (
	"context"
	"os"
	"path/filepath"
	"testing"

	"github.com/risor-io/risor"
	"github.com/risor-io/risor/importer"
	"github.com/risor-io/risor/object"
	"github.com/risor-io/risor/vm"
)

func c11f4Show(o object.Object) string {
	if o == nil {
		return "nil"
	}
	return o.Inspect()
}

// One LocalImporter (compiled against the default global names) is shared by
// two configurations, which its documentation calls safe. Both configurations
// pass it explicitly, so nothing depends on a sticky importer. On a reused VM,
// under the configuration that removes "os":
//   - on the main VM the module's global "os" is unbound (nil): correct
//   - inside spawn (a clone of the VM) the same module is loaded with the
//     globals of every earlier run: the removed os module is reachable
func TestC11F4_CloneLoadsCodeWithGlobalsOfEarlierRuns(t *testing.T) {
	ctx := context.Background()
	dir := t.TempDir()
	if err := os.WriteFile(filepath.Join(dir, "helper.risor"),
		[]byte("func double(x) { return x * 2 }\n"), 0o644); err != nil {
		t.Fatal(err)
	}
	imp := importer.NewLocalImporter(importer.LocalImporterOptions{
		GlobalNames: risor.NewConfig().GlobalNames(),
		SourceDir:   dir,
	})
	t.Setenv("C11_SECRET", "real-secret")

	machine, err := vm.NewEmpty()
	if err != nil {
		t.Fatal(err)
	}
	// Run 1: default configuration
	if res, err := risor.Eval(ctx, `import helper; helper.double(2)`,
		risor.WithVM(machine), risor.WithImporter(imp)); err != nil || res.Inspect() != "4" {
		t.Fatalf("run 1: res=%v err=%v", res, err)
	}

	restricted := []risor.Option{
		risor.WithVM(machine),
		risor.WithImporter(imp),
		risor.WithConcurrency(),
		risor.WithoutGlobal("os"),
	}

	// Run 2a, main VM: correct, os is not bound
	res, err := risor.Eval(ctx, `import helper; helper.os`, restricted...)
	if err == nil && c11f4Show(res) != "nil" {
		t.Errorf("main VM: expected nil for helper.os, got res=%v err=%v", res, err)
	}

	// Run 2b, the same inside spawn
	res, err = risor.Eval(ctx,
		`spawn(func() { import helper; return helper.os }).wait()`, restricted...)
	if err == nil && c11f4Show(res) != "nil" {
		t.Errorf("spawn: os removed by WithoutGlobal(\"os\"), but helper.os is %s", c11f4Show(res))
	}
	res, err = risor.Eval(ctx,
		`spawn(func() { import helper; return helper.os.getenv("C11_SECRET") }).wait()`, restricted...)
	if err == nil && c11f4Show(res) == `"real-secret"` {
		t.Errorf("spawn: the script called the real os.getenv: %s", c11f4Show(res))
	}

	// Control: a fresh VM has nothing to leak (the unbound global is a Go nil,
	// returning it from a function makes the VM fail - no os either way)
	res, err = risor.Eval(ctx,
		`spawn(func() { import helper; return helper.os }).wait()`,
		risor.WithImporter(imp), risor.WithConcurrency(), risor.WithoutGlobal("os"))
	if err == nil && c11f4Show(res) != "nil" {
		t.Errorf("control (fresh VM): res=%v err=%v", res, err)
	}
}
