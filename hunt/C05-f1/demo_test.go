package risor_test

import (
	"context"
	"fmt"
	"sort"
	"strings"
	"testing"

	"github.com/risor-io/risor"
)

// Two of the globals supplied by the host cannot be converted to Risor
// objects. The source and the globals are the same in every repetition, so the
// error has to be the same in every repetition too.
func TestC05F1InvalidGlobalsErrorIsDeterministic(t *testing.T) {
	ctx := context.Background()
	seen := map[string]int{}
	for i := 0; i < 300; i++ {
		globals := map[string]any{
			"a": make(chan int), // unsupported kind: chan
			"b": complex(1, 2),  // unsupported kind: complex128
		}
		_, err := risor.Eval(ctx, `1`, risor.WithGlobals(globals))
		if err == nil {
			t.Fatalf("expected an error for the unconvertible globals")
		}
		seen[err.Error()]++
	}
	if len(seen) != 1 {
		var lines []string
		for msg, n := range seen {
			lines = append(lines, fmt.Sprintf("  %s  (x%d)", msg, n))
		}
		sort.Strings(lines)
		t.Fatalf("the same source with the same globals gave %d different errors:\n%s",
			len(seen), strings.Join(lines, "\n"))
	}
}
