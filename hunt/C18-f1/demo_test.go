package risor_test

// C18 finding 1: an input that FAILS AT RUN TIME leaves behind the declarations
// of the statements it never executed. Copy into the repository root
// (package directory of github.com/risor-io/risor) and run
//
//	go test -run 'TestC18F1' .
import (
	"context"
	"fmt"
	"strings"
	"testing"

	"github.com/risor-io/risor"
	"github.com/risor-io/risor/compiler"
	"github.com/risor-io/risor/object"
	"github.com/risor-io/risor/parser"
	"github.com/risor-io/risor/vm"
)

// c18f1Session evaluates inputs exactly like cmd/risor/repl.getEvaluator:
// one compiler, one VM, and the instruction pointer is moved to the end of
// the code after a run-time error.
type c18f1Session struct {
	cfg *risor.Config
	c   *compiler.Compiler
	v   *vm.VirtualMachine
}

func (s *c18f1Session) eval(ctx context.Context, source string) (object.Object, error) {
	if s.cfg == nil {
		s.cfg = risor.NewConfig()
	}
	if s.c == nil {
		var err error
		s.c, err = compiler.New(s.cfg.CompilerOpts()...)
		if err != nil {
			return nil, err
		}
	}
	ast, err := parser.Parse(ctx, source)
	if err != nil {
		return nil, fmt.Errorf("rejected by the parser: %w", err)
	}
	code, err := s.c.Compile(ast)
	if err != nil {
		return nil, fmt.Errorf("rejected by the compiler: %w", err)
	}
	if s.v == nil {
		s.v = vm.New(code, s.cfg.VMOpts()...)
	}
	if err := s.v.Run(ctx); err != nil {
		s.v.SetIP(code.InstructionCount())
		return nil, fmt.Errorf("failed at run time: %w", err)
	}
	result, ok := s.v.TOS()
	if !ok || result == nil {
		return object.Nil, nil
	}
	return result, nil
}

func c18f1First(err error) string {
	if err == nil {
		return "<nil>"
	}
	return strings.Split(err.Error(), "\n")[0]
}

// The follow-up input must behave as if the failing input had never been typed,
// because the failing input had no run-time effect at all before it failed.
func TestC18F1_FunctionAfterFailingStatement(t *testing.T) {
	ctx := context.Background()
	followUp := `func f() { return 2 }; f()`

	// Reference: the follow-up input on a fresh session
	var ref c18f1Session
	want, err := ref.eval(ctx, followUp)
	if err != nil {
		t.Fatalf("reference: %v", err)
	}

	var s c18f1Session
	// `[][0]` fails (index out of range) before `func f` is executed
	if _, err := s.eval(ctx, `[][0]; func f() { return 1 }`); err == nil ||
		!strings.Contains(err.Error(), "failed at run time") {
		t.Fatalf("the first input is expected to fail at run time, got %v", err)
	}
	got, err := s.eval(ctx, followUp)
	if err != nil {
		t.Fatalf("input %q after an input that failed at run time: %s (a fresh session gives %s)",
			followUp, c18f1First(err), want.Inspect())
	}
	if got.Inspect() != want.Inspect() {
		t.Fatalf("got %s, want %s", got.Inspect(), want.Inspect())
	}
}

func TestC18F1_VariableWhoseInitializerFailed(t *testing.T) {
	ctx := context.Background()
	var s c18f1Session
	if _, err := s.eval(ctx, `l := [1, 2]`); err != nil {
		t.Fatal(err)
	}
	// The initializer fails, so x is never assigned
	if _, err := s.eval(ctx, `x := l[5]`); err == nil ||
		!strings.Contains(err.Error(), "failed at run time") {
		t.Fatalf("expected a run-time failure, got %v", err)
	}
	// Retrying the declaration with a valid index
	got, err := s.eval(ctx, `x := l[1]; x`)
	if err != nil {
		t.Fatalf("`x := l[1]` after `x := l[5]` failed at run time: %s", c18f1First(err))
	}
	if got.Inspect() != "2" {
		t.Fatalf("got %s, want 2", got.Inspect())
	}
}

func TestC18F1_ConstantWhoseInitializerFailed(t *testing.T) {
	ctx := context.Background()
	var s c18f1Session
	if _, err := s.eval(ctx, `const k = [][0]`); err == nil ||
		!strings.Contains(err.Error(), "failed at run time") {
		t.Fatalf("expected a run-time failure, got %v", err)
	}
	// k was never assigned. Now it can neither be declared nor assigned, for
	// the rest of the session.
	_, errDecl := s.eval(ctx, `const k = 3`)
	_, errAssign := s.eval(ctx, `k = 3`)
	if errDecl != nil && errAssign != nil {
		t.Fatalf("after `const k = [][0]` failed at run time:\n  `const k = 3` -> %s\n  `k = 3` -> %s",
			c18f1First(errDecl), c18f1First(errAssign))
	}
}
