package risor_test

import (
	"context"
	"testing"

	"github.com/risor-io/risor/compiler"
	"github.com/risor-io/risor/object"
	"github.com/risor-io/risor/parser"
	"github.com/risor-io/risor/vm"
)

func TestC09F1ReloadVsRunningClone(t *testing.T) {
	ctx := context.Background()
	src := `
x := 1
func f() {
	s := 0
	for i := 0; i < 300000; i++ { s += x }
	return s
}
t := spawn(f)
`
	ast, err := parser.Parse(ctx, src)
	if err != nil {
		t.Fatal(err)
	}
	c, err := compiler.New(compiler.WithGlobalNames([]string{"spawn"}))
	if err != nil {
		t.Fatal(err)
	}
	main, err := c.Compile(ast)
	if err != nil {
		t.Fatal(err)
	}
	spawn := object.NewBuiltin("spawn", func(ctx context.Context, args ...object.Object) object.Object {
		th, err := object.Spawn(ctx, args[0], args[1:])
		if err != nil {
			return object.NewError(err)
		}
		return th
	})
	v := vm.New(main, vm.WithConcurrency(), vm.WithGlobals(map[string]any{"spawn": spawn}))
	if err := v.Run(ctx); err != nil {
		t.Fatal(err)
	}
	// Second input of the REPL (here: nothing new was compiled)
	if err := v.Run(ctx); err != nil {
		t.Fatal(err)
	}
	th, err := v.Get("t")
	if err != nil {
		t.Fatal(err)
	}
	res := th.(*object.Thread).Wait(ctx)
	if res.Inspect() != "300000" {
		t.Fatalf("got %s", res.Inspect())
	}
}
