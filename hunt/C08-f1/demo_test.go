package risor_test

import (
	"context"
	"fmt"
	"reflect"
	"strings"
	"testing"

	"github.com/risor-io/risor"
)

// F1Host has a variadic method: its last parameter has type []int.
type F1Host struct{ Got []int }

func (h *F1Host) Sum(xs ...int) int {
	h.Got = xs
	t := 0
	for _, x := range xs {
		t += x
	}
	return t
}

func f1Eval(src string, h *F1Host) (res any, err error) {
	defer func() {
		if r := recover(); r != nil {
			err = fmt.Errorf("PANIC out of risor.Eval: %v", r)
		}
	}()
	return risor.Eval(context.Background(), src, risor.WithGlobal("h", h))
}

// The only form the converter of the []int parameter accepts is a list; the
// call then panics inside reflect (the VM reports it as "panic: ...").
func TestF1VariadicListPanics(t *testing.T) {
	h := &F1Host{}
	res, err := f1Eval(`h.Sum([1, 2, 3])`, h)
	if err != nil {
		if strings.Contains(strings.ToLower(err.Error()), "panic") {
			t.Fatalf("conversion panicked: %v", err)
		}
		return // a clean rejection would be acceptable
	}
	if fmt.Sprint(res) != "6" || !reflect.DeepEqual(h.Got, []int{1, 2, 3}) {
		t.Fatalf("res=%v, Go received %v, want 6 and [1 2 3]", res, h.Got)
	}
}

// The arguments 1, 2, 3 are representable in (xs ...int), so the Go method
// must receive exactly them.
func TestF1VariadicSpreadRejected(t *testing.T) {
	h := &F1Host{}
	res, err := f1Eval(`h.Sum(1, 2, 3)`, h)
	if err != nil {
		t.Fatalf("representable arguments were not delivered: %v", err)
	}
	if fmt.Sprint(res) != "6" || !reflect.DeepEqual(h.Got, []int{1, 2, 3}) {
		t.Fatalf("res=%v, Go received %v, want 6 and [1 2 3]", res, h.Got)
	}
}
