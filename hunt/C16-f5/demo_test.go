package risor_test

import (
	"context"
	"testing"

	"github.com/risor-io/risor"
)

// One list, one needle: `x in l`, l.count(x), l.index(x) and l.remove(x) must agree
// on whether x is an item of l.
func TestC16F5MembershipAndIndexAgree(t *testing.T) {
	cases := []struct{ src, want string }{
		// sanity: ints and floats agree in both directions
		{`l := [1.0]; [1 in l, l.count(1), l.index(1)]`, `[true, 1, 0]`},
		// needle "a", item byte_slice("a")
		{`l := [byte_slice("a")]; ["a" in l, l.count("a") > 0, l.index("a") >= 0]`, `[true, true, true]`},
		// needle byte_slice("a"), item "a"
		{`l := ["a"]; b := byte_slice("a"); [b in l, l.count(b) > 0, l.index(b) >= 0]`, `[true, true, true]`},
		// "in" says it is there, remove does not find it
		{`l := [byte_slice("a"), "b"]; was := "a" in l; l.remove("a"); [was, len(l)]`, `[true, 1]`},
	}
	for _, c := range cases {
		res, err := risor.Eval(context.Background(), c.src)
		if err != nil {
			t.Errorf("%s\n  unexpected error: %v", c.src, err)
			continue
		}
		got := res.Inspect()
		// accept the other consistent answer (not a member at all) too
		allFalse := map[string]string{
			`[true, true, true]`: `[false, false, false]`,
			`[true, 1]`:          `[false, 2]`,
		}
		if got != c.want && got != allFalse[c.want] {
			t.Errorf("%s\n  got  %s\n  want %s (or consistently %s)", c.src, got, c.want, allFalse[c.want])
		}
	}
}
