package risor_test

import (
	"context"
	"os"
	"path/filepath"
	"testing"

	"github.com/risor-io/risor"
	"github.com/risor-io/risor/vm"
)

// Configuration A has a local importer, configuration B has none (so for B
// "import resolves only among configured module globals"). On a VM that served
// A before, a script under B still imports A's code modules.
func TestC11F3_ImporterOfEarlierConfigurationServesLaterOne(t *testing.T) {
	ctx := context.Background()
	dir := t.TempDir()
	src := "token := \"s3cr3t\"\nfunc double(x) { return x * 2 }\n"
	if err := os.WriteFile(filepath.Join(dir, "trusted.risor"), []byte(src), 0o644); err != nil {
		t.Fatal(err)
	}
	const script = `import trusted; trusted.token`

	// Control: configuration B on a fresh VM
	if _, err := risor.Eval(ctx, script, risor.WithoutGlobal("os")); err == nil {
		t.Fatalf("control: configuration B has no importer, import must fail")
	}

	machine, err := vm.NewEmpty()
	if err != nil {
		t.Fatal(err)
	}
	// Configuration A: default globals, local importer
	if res, err := risor.Eval(ctx, `import trusted; trusted.double(2)`,
		risor.WithVM(machine), risor.WithLocalImporter(dir)); err != nil || res.Inspect() != "4" {
		t.Fatalf("run A: res=%v err=%v", res, err)
	}
	// Configuration B: no importer, os removed
	res, err := risor.Eval(ctx, script, risor.WithVM(machine), risor.WithoutGlobal("os"))
	if err == nil {
		t.Errorf("configuration B (no importer) obtained module \"trusted\" through the importer of configuration A: %s", res.Inspect())
	}

	// Amplification: configuration A also allowed concurrency (sticky as
	// well). In a spawned thread the module is loaded with the globals of ALL
	// earlier runs, and a code module exposes its globals as attributes: the
	// removed os module is fully usable under B.
	machine2, _ := vm.NewEmpty()
	if _, err := risor.Eval(ctx, `import trusted; 1`, risor.WithVM(machine2),
		risor.WithLocalImporter(dir), risor.WithConcurrency()); err != nil {
		t.Fatal(err)
	}
	t.Setenv("C11_SECRET", "real-secret")
	res, err = risor.Eval(ctx,
		`spawn(func() { import trusted; return trusted.os.getenv("C11_SECRET") }).wait()`,
		risor.WithVM(machine2), risor.WithoutGlobal("os"))
	if err == nil && res.Inspect() == `"real-secret"` {
		t.Errorf("configuration B (os removed, no importer, no concurrency) called the real os.getenv: %s", res.Inspect())
	}
}
