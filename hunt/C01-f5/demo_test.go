package risor_test

import (
	"context"
	"testing"

	"github.com/risor-io/risor"
)

// evalC01IntPower evaluates a program and renders the outcome: the inspected value,
// or "ERR: " followed by the error text.
func evalC01IntPower(src string) string {
	v, err := risor.Eval(context.Background(), src)
	if err != nil {
		return "ERR: " + err.Error()
	}
	return v.Inspect()
}

func TestC01HuntIntPower(t *testing.T) {
	cases := []struct{ name, src, want string }{
		{"3 ** 39 equals 39 multiplications by 3",
			`y := 1; for i := range 39 { y = y * 3 }; [3 ** 39 == y, 3 ** 39, y]`,
			`[true, 4052555153018976267, 4052555153018976267]`},
		{"7 ** 20 is exact",
			`7 ** 20`,
			`79792266297612001`},
		{"int ** float is a float like every other int-float operation",
			`[2 ** 0.5 == 2.0 ** 0.5, 2 * 0.5, 2 + 0.5]`,
			`[true, 1, 2.5]`},
	}
	for _, c := range cases {
		got := evalC01IntPower(c.src)
		if got != c.want {
			t.Errorf("%s\n  program: %s\n  want:    %s\n  got:     %s", c.name, c.src, c.want, got)
		}
	}
}
