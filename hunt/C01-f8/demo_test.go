package risor_test

import (
	"context"
	"testing"

	"github.com/risor-io/risor"
)

// "obj.y++" can mean "increment the attribute y of obj" or it can be refused as
// a syntax error. What it cannot mean is "evaluate obj.y and then increment the
// unrelated variable y".
func TestC01HuntPostfixOperand(t *testing.T) {
	cases := []struct{ name, src, unchanged string }{
		{"m.y++ does not touch the variable y",
			`m := {y: 1}; y := 10; m.y++; y`, `10`},
		{"a.b.y-- does not touch the variable y",
			`a := {b: {y: 1}}; y := 10; a.b.y--; y`, `10`},
		{"inside a function: the captured global y is not touched either",
			`y := 10; func f(m) { m.y++ }; f({y: 1}); y`, `10`},
	}
	for _, c := range cases {
		v, err := risor.Eval(context.Background(), c.src)
		if err != nil {
			continue // refusing the program is acceptable
		}
		if got := v.Inspect(); got != c.unchanged {
			t.Errorf("%s\n  program: %s\n  want:    %s (or a syntax error)\n  got:     %s",
				c.name, c.src, c.unchanged, got)
		}
	}
}
