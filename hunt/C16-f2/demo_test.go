package risor_test

import (
	"context"
	"testing"

	"github.com/risor-io/risor"
)

// A slice whose bounds lie inside [0, len] is legal. In particular the
// "copy" idiom c[:] and the empty tail c[len(c):] are not out-of-range accesses.
func TestC16F2SliceAtEndBoundary(t *testing.T) {
	cases := []struct{ src, want string }{
		// the copy idiom works for every list except the empty one
		{`l := [1]; l[:]`, `[1]`},
		{`l := []; l[:]`, `[]`},
		{`l := [1]; l.pop(0); c := l[:]; c.append(2); [l, c]`, `[[], [2]]`},
		// l[i:i] is the empty list for every i in [0, len] ...
		{`l := [1, 2, 3]; [l[0:0], l[1:1], l[2:2]]`, `[[], [], []]`},
		// ... except i == len
		{`l := [1, 2, 3]; l[3:3]`, `[]`},
		{`l := [1, 2, 3]; l[3:]`, `[]`},
		{`l := [1, 2, 3]; l[len(l):]`, `[]`},
		// popping the head in a loop: tail of a one element list
		{`l := [1]; l[1:]`, `[]`},
		// same for strings and byte slices
		{`""[:]`, `""`},
		{`s := "hé"; s[2:]`, `""`},
		{`s := "hé"; s[0:0]`, `""`},
		{`b := byte_slice("ab"); len(b[2:])`, `0`},
	}
	for _, c := range cases {
		res, err := risor.Eval(context.Background(), c.src)
		if err != nil {
			t.Errorf("%s\n  unexpected error: %v", c.src, err)
			continue
		}
		if got := res.Inspect(); got != c.want {
			t.Errorf("%s\n  got  %s\n  want %s", c.src, got, c.want)
		}
	}
}
