package risor_test

import (
	"context"
	"fmt"
	"strings"
	"testing"

	"github.com/risor-io/risor"
)

// F4Key is a named type whose underlying type is string.
type F4Key string

type F4Host struct{ M map[F4Key]int }

func f4Eval(src string, opts ...risor.Option) (res any, err error) {
	defer func() {
		if r := recover(); r != nil {
			err = fmt.Errorf("PANIC out of risor.Eval: %v", r)
		}
	}()
	return risor.Eval(context.Background(), src, opts...)
}

func f4NoPanic(t *testing.T, err error) {
	t.Helper()
	if err != nil && strings.Contains(strings.ToLower(err.Error()), "panic") {
		t.Fatalf("conversion panicked: %v", err)
	}
}

// As a global: the panic escapes risor.Eval (vm.New -> applyOptions is not
// under the VM's recover).
func TestF4NamedKeyMapGlobal(t *testing.T) {
	res, err := f4Eval(`m["a"]`, risor.WithGlobal("m", map[F4Key]int{"a": 1}))
	f4NoPanic(t, err)
	if err == nil && fmt.Sprint(res) != "1" {
		t.Fatalf("res=%v", res)
	}
}

func TestF4NamedKeyMapFieldRead(t *testing.T) {
	h := &F4Host{M: map[F4Key]int{"a": 1}}
	res, err := f4Eval(`h.M["a"]`, risor.WithGlobal("h", h))
	f4NoPanic(t, err)
	if err == nil && fmt.Sprint(res) != "1" {
		t.Fatalf("res=%v", res)
	}
}

func TestF4NamedKeyMapFieldWrite(t *testing.T) {
	h := &F4Host{}
	_, err := f4Eval(`h.M = {"a": 1}`, risor.WithGlobal("h", h))
	f4NoPanic(t, err)
	if err == nil && h.M["a"] != 1 {
		t.Fatalf("M=%v", h.M)
	}
}
