package risor_test

import (
	"context"
	"testing"

	"github.com/risor-io/risor"
)

// evalC01CompoundTargetOnce evaluates a program and renders the outcome: the inspected value,
// or "ERR: " followed by the error text.
func evalC01CompoundTargetOnce(src string) string {
	v, err := risor.Eval(context.Background(), src)
	if err != nil {
		return "ERR: " + err.Error()
	}
	return v.Inspect()
}

func TestC01HuntCompoundTargetOnce(t *testing.T) {
	cases := []struct{ name, src, want string }{
		{"index expression of a compound assignment is evaluated once",
			`log := []; func t(x) { log.append(x); return x }; l := [10, 20, 30]; l[t(1)] += 5; [l, log]`,
			`[[10, 25, 30], [1]]`},
		{"the element that is read is the element that is written",
			`idx := [0, 1]; l := [10, 20]; l[idx.pop(len(idx) - 1)] += 5; [l, idx]`,
			`[[10, 25], [0]]`},
		{"container expression of a compound assignment is evaluated once",
			`n := 0; l := [1, 2]; func get() { n++; return l }; get()[0] *= 3; [l, n]`,
			`[[3, 2], 1]`},
		{"object expression of a compound attribute assignment is evaluated once",
			`n := 0; m := {k: 1}; func get() { n++; return m }; get().k += 2; [m, n]`,
			`[{"k": 3}, 1]`},
	}
	for _, c := range cases {
		got := evalC01CompoundTargetOnce(c.src)
		if got != c.want {
			t.Errorf("%s\n  program: %s\n  want:    %s\n  got:     %s", c.name, c.src, c.want, got)
		}
	}
}
