package risor_test

// Finding f3 (property C04): when one compiler compiles several inputs into the
// same code object (compiler.New + Compile per input, as the REPL does), the
// value of the last statement of every input stays on the operand stack: the
// accumulated program leaves one value per input instead of exactly its result,
// and the number of inputs alone overflows the stack.
//
// Copy into the repository root (package directory of github.com/risor-io/risor)
// and run:  go test -run TestC04F3 -count=1 .

import (
	"context"
	"testing"

	"github.com/risor-io/risor/compiler"
	"github.com/risor-io/risor/parser"
	"github.com/risor-io/risor/vm"
)

func c04f3Compile(t *testing.T, inputs int, src string) *compiler.Code {
	t.Helper()
	ctx := context.Background()
	c, err := compiler.New()
	if err != nil {
		t.Fatal(err)
	}
	var code *compiler.Code
	for i := 0; i < inputs; i++ {
		prog, err := parser.Parse(ctx, src)
		if err != nil {
			t.Fatal(err)
		}
		if code, err = c.Compile(prog); err != nil {
			t.Fatal(err)
		}
	}
	return code
}

// Ten inputs work, 1100 inputs do not, although every input is stack-neutral
// on its own ("1 + 1" evaluates to one value that nobody needs afterwards).
func TestC04F3AccumulatedCodeFromScratch(t *testing.T) {
	ctx := context.Background()
	for _, n := range []int{10, 1100} {
		code := c04f3Compile(t, n, "1 + 1")
		res, err := vm.Run(ctx, code)
		if err != nil {
			t.Errorf("%d inputs: %v", n, err)
			continue
		}
		if res.Inspect() != "2" {
			t.Errorf("%d inputs: got %s, want 2", n, res.Inspect())
		}
	}
}

// The same through a REPL session: every input is compiled and run with
// vm.Run (which works, Run drops the stale values). Clone is documented to
// start "at the beginning of the main entrypoint" when Run is called on the
// clone: it replays the session and overflows.
func TestC04F3CloneOfReplSession(t *testing.T) {
	ctx := context.Background()
	c, err := compiler.New()
	if err != nil {
		t.Fatal(err)
	}
	var machine *vm.VirtualMachine
	for i := 0; i < 1100; i++ {
		prog, err := parser.Parse(ctx, "x := 1") // a statement: compileProgram appends NIL
		if i > 0 {
			prog, err = parser.Parse(ctx, "x = x + 1")
		}
		if err != nil {
			t.Fatal(err)
		}
		code, err := c.Compile(prog)
		if err != nil {
			t.Fatal(err)
		}
		if machine == nil {
			machine = vm.New(code)
		}
		if err := machine.Run(ctx); err != nil {
			t.Fatalf("input %d: %v", i, err)
		}
	}
	clone, err := machine.Clone()
	if err != nil {
		t.Fatal(err)
	}
	if err := clone.Run(ctx); err != nil {
		t.Fatalf("replaying 1100 stack-neutral inputs on a clone: %v", err)
	}
}
