package parser_test

import (
	"context"
	"testing"

	"github.com/risor-io/risor/parser"
)

// The grammar accepts a line break after the "." of an attribute access
// (parseGetAttr eats newlines), and an attribute may be called "as" (the lexer
// makes "as" an identifier after a "."). The two together fail.
func TestC20HuntF5BreakAfterPeriodBeforeAs(t *testing.T) {
	parse := func(src string) (string, error) {
		prog, err := parser.Parse(context.Background(), src)
		if err != nil {
			return "", err
		}
		return prog.String(), nil
	}
	// control: any other attribute name may follow the break
	if a, err := parse("y := x.\n  foo(1)\n"); err != nil {
		t.Fatalf("control failed: %v", err)
	} else if b, _ := parse("y := x.foo(1)\n"); a != b {
		t.Fatalf("control: %q vs %q", a, b)
	}
	want, err := parse("y := x.as(1)\n")
	if err != nil {
		t.Fatalf("x.as(1) is expected to be valid: %v", err)
	}
	for _, src := range []string{
		"y := x.\n  as(1)\n",
		"y := x. // comment\n  as(1)\n",
		"y := x.\r\n  as(1)\r\n",
	} {
		got, err := parse(src)
		if err != nil {
			t.Errorf("%q: line break after \".\" made the program invalid: %v", src, err)
		} else if got != want {
			t.Errorf("%q: tree changed: %q vs %q", src, got, want)
		}
	}
}
