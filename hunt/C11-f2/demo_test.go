package risor_test

import (
	"context"
	"testing"

	"github.com/risor-io/risor"
	"github.com/risor-io/risor/compiler"
	"github.com/risor-io/risor/parser"
	"github.com/risor-io/risor/vm"
)

func c11f2Compile(t *testing.T, src string, cfg *risor.Config) *compiler.Code {
	t.Helper()
	ast, err := parser.Parse(context.Background(), src)
	if err != nil {
		t.Fatal(err)
	}
	code, err := compiler.Compile(ast, cfg.CompilerOpts()...)
	if err != nil {
		t.Fatal(err)
	}
	return code
}

// A VM that was constructed with the options of the default configuration
// (vm.New(code, cfg.VMOpts()...)) and is then used for the first time by an
// evaluation whose configuration removes "os": `import os` still delivers the
// os module of the construction-time configuration.
func TestC11F2_ImportOnFirstRunOfConstructedVM(t *testing.T) {
	ctx := context.Background()
	const script = `import os; os.getenv`

	// Control: fresh VM
	if _, err := risor.Eval(ctx, script, risor.WithoutGlobal("os")); err == nil {
		t.Fatalf("control: import os must fail when os is removed")
	}

	def := risor.NewConfig()
	machine := vm.New(c11f2Compile(t, "1", def), def.VMOpts()...)

	res, err := risor.Eval(ctx, script, risor.WithVM(machine), risor.WithoutGlobal("os"))
	if err == nil {
		t.Errorf("first run: os removed by WithoutGlobal(\"os\") but `import os` delivered %s", res.Inspect())
	}

	// The second run on the same VM behaves (the caches are reset by then)
	if res, err := risor.Eval(ctx, script, risor.WithVM(machine), risor.WithoutGlobal("os")); err == nil {
		t.Errorf("second run: `import os` delivered %s", res.Inspect())
	}
}

// Same cause, second witness: the first RunCode on a clone. The clone starts
// with startCount 0 too, so neither its module cache nor its loaded code is
// reset: the code object of the other configuration (with its globals array)
// is reused as it is.
func TestC11F2_FirstRunOfClone(t *testing.T) {
	ctx := context.Background()
	def := risor.NewConfig()
	code := c11f2Compile(t, "os.getenv", def)

	machine, err := vm.NewEmpty()
	if err != nil {
		t.Fatal(err)
	}
	if _, err := risor.EvalCode(ctx, code, risor.WithVM(machine)); err != nil {
		t.Fatal(err)
	}
	clone, err := machine.Clone()
	if err != nil {
		t.Fatal(err)
	}
	res, err := risor.EvalCode(ctx, code, risor.WithVM(clone), risor.WithoutGlobal("os"))
	if err == nil && res.Inspect() == "builtin(os.getenv)" {
		t.Errorf("clone, os removed: the code read %s through the globals array of the earlier configuration", res.Inspect())
	}
}
