package risor_test

import (
	"context"
	"fmt"
	"strings"
	"testing"

	"github.com/risor-io/risor"
)

type F3Inner struct{ X int }

type F3Cfg struct {
	N     int
	P     *int
	Tags  []string
	Inner F3Inner
}

type F3Host struct{ Got F3Cfg }

func (h *F3Host) Take(c F3Cfg) int { h.Got = c; return c.N }

func f3Eval(src string, h *F3Host) (res any, err error) {
	defer func() {
		if r := recover(); r != nil {
			err = fmt.Errorf("PANIC out of risor.Eval: %v", r)
		}
	}()
	return risor.Eval(context.Background(), src, risor.WithGlobal("h", h))
}

// Sanity: a map is an accepted representation of a struct argument.
func TestF3MapToStructBaseline(t *testing.T) {
	h := &F3Host{}
	res, err := f3Eval(`h.Take({"N": 3, "Tags": ["a"]})`, h)
	if err != nil || fmt.Sprint(res) != "3" || len(h.Got.Tags) != 1 {
		t.Fatalf("res=%v err=%v got=%+v", res, err, h.Got)
	}
}

// nil is representable in the *int field P (and in the []string field Tags).
func TestF3MapToStructNilMember(t *testing.T) {
	for _, src := range []string{
		`h.Take({"N": 3, "P": nil})`,
		`h.Take({"N": 3, "Tags": nil})`,
	} {
		h := &F3Host{}
		res, err := f3Eval(src, h)
		if err != nil {
			t.Errorf("%s: %v", src, err)
			continue
		}
		if fmt.Sprint(res) != "3" || h.Got.P != nil || h.Got.Tags != nil {
			t.Errorf("%s: res=%v got=%+v", src, res, h.Got)
		}
	}
}

// {"X": 7} is representable in the struct-valued field Inner.
func TestF3MapToStructNestedStruct(t *testing.T) {
	h := &F3Host{}
	res, err := f3Eval(`h.Take({"N": 3, "Inner": {"X": 7}})`, h)
	if err != nil {
		if strings.Contains(strings.ToLower(err.Error()), "panic") {
			t.Fatalf("conversion panicked: %v", err)
		}
		t.Fatalf("representable argument refused: %v", err)
	}
	if fmt.Sprint(res) != "3" || h.Got.Inner.X != 7 {
		t.Fatalf("res=%v got=%+v", res, h.Got)
	}
}
