package risor_test

// Finding f2 (property C04): a call whose result is a Go nil makes the return
// path (vm.resumeFrame / vm.callFunction) pop a slot that belongs to the
// CALLER instead of the callee's result.
//
// Copy into the repository root (package directory of github.com/risor-io/risor)
// and run:  go test -run TestC04F2 -count=1 .

import (
	"context"
	"testing"

	"github.com/risor-io/risor"
)

func c04f2Eval(t *testing.T, src string, want string) {
	t.Helper()
	res, err := risor.Eval(context.Background(), src)
	if err != nil {
		t.Fatalf("evaluation failed: %v\nprogram:\n%s", err, src)
	}
	if got := res.Inspect(); got != want {
		t.Fatalf("got %s, want %s\nprogram:\n%s", got, want, src)
	}
}

// No network traffic: http.request only builds a request object. The builtin
// behind add_header returns a Go nil, and setup() returns that as its result.
func TestC04F2BuiltinReturningGoNil(t *testing.T) {
	c04f2Eval(t, `
req := http.request("http://localhost:1/x")
func setup(r) { r.add_header("A", "b") }
n := 0
for i := range 3 { setup(req); n++ }
n`, "3")
}

// The same with nothing but the language: h is declared (forward reference)
// but not yet assigned when g() runs, so g returns a Go nil.
func TestC04F2ForwardDeclaredFunction(t *testing.T) {
	c04f2Eval(t, `
func g() { return h }
n := 0
for i := range 3 { g(); n++ }
func h() { 1 }
n`, "3")
}

// At the top level there is no caller slot to steal: the operand stack
// underflows (Go panic "index out of range [-1]").
func TestC04F2TopLevelUnderflow(t *testing.T) {
	c04f2Eval(t, `
func g() { return h }
g()
func h() { 1 }
7`, "7")
}
