package risor_test

import (
	"context"
	"testing"

	"github.com/risor-io/risor"
)

// evalC01BraceEscape evaluates a program and renders the outcome: the inspected value,
// or "ERR: " followed by the error text.
func evalC01BraceEscape(src string) string {
	v, err := risor.Eval(context.Background(), src)
	if err != nil {
		return "ERR: " + err.Error()
	}
	return v.Inspect()
}

func TestC01HuntBraceEscape(t *testing.T) {
	cases := []struct{ name, src, want string }{
		{"}} is an escaped brace in every template string",
			"'}}'",
			`"}"`},
		{"a literal is the concatenation of its parts",
			"'{{' + '}}' == '{{}}'",
			`true`},
		{"same text after an interpolation",
			"x := 5; ['{x}}}', '}}']",
			`["5}", "}"]`},
	}
	for _, c := range cases {
		got := evalC01BraceEscape(c.src)
		if got != c.want {
			t.Errorf("%s\n  program: %s\n  want:    %s\n  got:     %s", c.name, c.src, c.want, got)
		}
	}
}
