package risor_test

import (
	"context"
	"fmt"
	"os"
	"os/exec"
	"runtime/debug"
	"strings"
	"testing"

	"github.com/risor-io/risor"
)

// == must be reflexive for every script value: l == l is true. For a list (or map) that contains itself the
// comparison never returns: List.Equals recurses until the Go stack limit is hit, which is a fatal, unrecoverable
// error of the whole host process. The evaluation therefore runs in a child process (this same test binary).
func TestC15F4_SelfContainingListEqualsItself(t *testing.T) {
	src := os.Getenv("C15F4_SRC")
	if src != "" {
		debug.SetMaxStack(64 << 20) // fail fast instead of growing to the 1 GB default
		v, err := risor.Eval(context.Background(), src)
		if err != nil {
			fmt.Println("RESULT error:", err)
			return
		}
		fmt.Println("RESULT", v.Inspect())
		return
	}
	for _, src := range []string{
		`l := [1]; l.append(l); l == l`,
		`m := {"a": 1}; m["self"] = m; m == m`,
		`l := [1]; l.append(l); l != l`,
	} {
		cmd := exec.Command(os.Args[0], "-test.run=^TestC15F4_SelfContainingListEqualsItself$")
		cmd.Env = append(os.Environ(), "C15F4_SRC="+src)
		out, err := cmd.CombinedOutput()
		text := string(out)
		want := "RESULT true"
		if strings.Contains(src, "!=") {
			want = "RESULT false"
		}
		if err != nil || !strings.Contains(text, want) {
			first := text
			if i := strings.Index(first, "\n\n"); i > 0 {
				first = first[:i]
			}
			t.Errorf("%s: want %q, child process: %v\n%s", src, want, err, first)
		}
	}
}
