package risor_test

// C07 finding f5: a Run that follows a Run which did not end normally (runtime
// error, recovered panic, cancellation) resumes the main code in the middle of
// the statement that failed, on an operand stack that has been emptied. It
// ends with a Go panic ("index out of range [-1]"), while the same Run after
// a normally ended Run is a no-op that reports success.
//
// Caveat: the REPL of cmd/risor works around this by calling
// v.SetIP(code.InstructionCount()) after a failed Run; the documentation of
// Run / SetIP does not ask hosts to do so.

import (
	"context"
	"strings"
	"testing"
	"time"

	"github.com/risor-io/risor/compiler"
	"github.com/risor-io/risor/parser"
	"github.com/risor-io/risor/vm"
)

func c07f5Compile(t *testing.T, src string) *compiler.Code {
	t.Helper()
	ast, err := parser.Parse(context.Background(), src)
	if err != nil {
		t.Fatal(err)
	}
	code, err := compiler.Compile(ast)
	if err != nil {
		t.Fatal(err)
	}
	return code
}

func TestC07F5_RunAfterFailedRun(t *testing.T) {
	ctx := context.Background()

	// Reference: Run, Run on main code that ends normally. The second Run has
	// nothing left to do and says so.
	ref := vm.New(c07f5Compile(t, "func f(d) { if d == 0 { return 5 }; return 1 + f(d-1) }; x := 1 + f(3); 42"))
	if err := ref.Run(ctx); err != nil {
		t.Fatal(err)
	}
	if err := ref.Run(ctx); err != nil {
		t.Fatalf("reference: second Run: %v", err)
	}

	// The same with a runtime error at depth 3
	v := vm.New(c07f5Compile(t, "func f(d) { if d == 0 { return [1][5] }; return 1 + f(d-1) }; x := 1 + f(3); 42"))
	err := v.Run(ctx)
	if err == nil {
		t.Fatal("expected an index error")
	}
	t.Logf("invocation 1 (expected to fail): %v", err)
	err = v.Run(ctx)
	if err != nil && strings.HasPrefix(err.Error(), "panic:") {
		t.Errorf("invocation 2: Run after the failed Run ended with a Go panic: %v", err)
	}
}

func TestC07F5_RunAfterCancelledRun(t *testing.T) {
	main := c07f5Compile(t, "total := 0; for _, x := range [1, 2, 3] { for i := 0; i < 100000000; i++ { total++ } }; total")
	v := vm.New(main)
	ctx, cancel := context.WithCancel(context.Background())
	go func() { time.Sleep(20 * time.Millisecond); cancel() }()
	if err := v.Run(ctx); err != context.Canceled {
		t.Fatalf("expected context.Canceled, got %v", err)
	}
	err := v.Run(context.Background())
	if err != nil && strings.HasPrefix(err.Error(), "panic:") {
		t.Errorf("Run (fresh context) after the cancelled Run ended with a Go panic: %v", err)
	}
}
