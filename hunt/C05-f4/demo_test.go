package risor_test

import (
	"context"
	"fmt"
	"sort"
	"strings"
	"testing"

	"github.com/risor-io/risor"
)

func c05f4Check(t *testing.T, source string) {
	t.Helper()
	ctx := context.Background()
	seen := map[string]int{}
	for i := 0; i < 200; i++ {
		res, err := risor.Eval(ctx, source)
		if err != nil {
			seen["error: "+err.Error()]++
		} else {
			seen["value: "+res.Inspect()]++
		}
	}
	if len(seen) != 1 {
		var lines []string
		for msg, n := range seen {
			lines = append(lines, fmt.Sprintf("  %s  (x%d)", msg, n))
		}
		sort.Strings(lines)
		t.Errorf("%s\ngave %d different outcomes in 200 evaluations:\n%s",
			source, len(seen), strings.Join(lines, "\n"))
	}
}

// http.request only builds the request object, nothing is sent.
func TestC05F4RequestHeadersAreDeterministic(t *testing.T) {
	t.Run("header values", func(t *testing.T) {
		c05f4Check(t, `http.request("http://example.invalid/", {headers: {"X-Tag": "1", "x-tag": "2"}}).header`)
	})
	t.Run("header values after sorting the names", func(t *testing.T) {
		// three spellings of one header: the values should at least come in
		// the sorted order of the names, as everywhere else for maps
		c05f4Check(t, `http.request("http://example.invalid/", {headers: {"ACCEPT": "a", "Accept": "b", "accept": "c"}}).header["Accept"]`)
	})
}
