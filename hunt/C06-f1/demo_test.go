package risor_test

import (
	"context"
	"errors"
	"sync/atomic"
	"testing"
	"time"

	"github.com/risor-io/risor"
	"github.com/risor-io/risor/object"
)

// C06 f1: a blocking primitive that is interrupted by the context returns a
// NORMAL value (time.sleep -> nil, channel iteration -> "exhausted"), the halt
// flag is only set later by the watcher goroutine, so the script runs on past
// the blocking point and, when little code follows, Eval returns (value, nil).
func TestC06F1_BlockingPrimitivesSwallowCancellation(t *testing.T) {
	programs := []string{
		`time.sleep(5); mark(); 42`,
		`ch := chan(); for x := range ch { }; mark(); 42`,
		`ch := chan(); l := list(ch); mark(); 42`,
	}
	for _, src := range programs {
		var marks int64
		mark := object.NewBuiltin("mark", func(ctx context.Context, args ...object.Object) object.Object {
			atomic.AddInt64(&marks, 1)
			return object.Nil
		})
		const rounds = 20
		nilErr := 0
		var lastRes object.Object
		for i := 0; i < rounds; i++ {
			ctx, cancel := context.WithTimeout(context.Background(), 30*time.Millisecond)
			start := time.Now()
			res, err := risor.Eval(ctx, src, risor.WithGlobal("mark", mark))
			elapsed := time.Since(start)
			cancel()
			if elapsed > 2*time.Second {
				t.Fatalf("%q: not prompt: %v", src, elapsed)
			}
			if err == nil {
				nilErr++
				lastRes = res
			} else if !errors.Is(err, context.DeadlineExceeded) {
				t.Errorf("%q: unexpected error %v", src, err)
			}
		}
		if nilErr > 0 || marks > 0 {
			t.Errorf("%q under a 30ms deadline: Eval returned a nil error in %d/%d runs (result %v) "+
				"and the statement after the blocking point ran %d times after the cancellation; "+
				"want context.DeadlineExceeded every time and 0 executions",
				src, nilErr, rounds, lastRes, marks)
		}
	}
}
