package risor_test

// C07 finding f3: RunCode overwrites the instruction pointer (and drops the
// loaded main code with its globals) that Run uses to continue the main code.
// A Run that follows a RunCode starts the main code at the offset where the
// *other* code stopped: it silently skips the main code (nil error, no value),
// or starts in the middle of it.

import (
	"context"
	"testing"

	"github.com/risor-io/risor/compiler"
	"github.com/risor-io/risor/parser"
	"github.com/risor-io/risor/vm"
)

func c07f3Compile(t *testing.T, src string) *compiler.Code {
	t.Helper()
	ast, err := parser.Parse(context.Background(), src)
	if err != nil {
		t.Fatal(err)
	}
	code, err := compiler.Compile(ast)
	if err != nil {
		t.Fatal(err)
	}
	return code
}

func c07f3Result(v *vm.VirtualMachine) string {
	if obj, ok := v.TOS(); ok {
		return obj.Inspect()
	}
	return "<no value>"
}

const c07f3Other = "a := 1; b := 2; c := 3; a + b + c"

// The first Run of the main code "40 + 2", with and without an earlier RunCode
// of unrelated code on the same VM.
func TestC07F3_SkipsMain(t *testing.T) {
	ctx := context.Background()

	ref := vm.New(c07f3Compile(t, "40 + 2"))
	if err := ref.Run(ctx); err != nil || c07f3Result(ref) != "42" {
		t.Fatalf("reference: %v %s", err, c07f3Result(ref))
	}

	v := vm.New(c07f3Compile(t, "40 + 2"))
	if err := v.RunCode(ctx, c07f3Compile(t, c07f3Other)); err != nil || c07f3Result(v) != "6" {
		t.Fatalf("RunCode: %v %s", err, c07f3Result(v))
	}
	err := v.Run(ctx)
	if err != nil || c07f3Result(v) != "42" {
		t.Errorf("Run of \"40 + 2\" after RunCode(%q): err=%v result=%s, want err=<nil> result=42",
			c07f3Other, err, c07f3Result(v))
	}
}

// A shorter other code: Run starts in the middle of the main code.
func TestC07F3_StartsInTheMiddle(t *testing.T) {
	ctx := context.Background()
	v := vm.New(c07f3Compile(t, "x := 1; y := 2; z := x + y; z * 10"))
	if err := v.RunCode(ctx, c07f3Compile(t, "7")); err != nil {
		t.Fatal(err)
	}
	err := v.Run(ctx)
	if err != nil || c07f3Result(v) != "30" {
		t.Errorf("Run after RunCode(\"7\"): err=%v result=%s, want err=<nil> result=30", err, c07f3Result(v))
	}
}

// REPL style: the main code grows with every input (one compiler), Run
// evaluates the new part. A RunCode between two inputs makes the next input
// a silent no-op.
func TestC07F3_Repl(t *testing.T) {
	ctx := context.Background()
	for _, interleave := range []bool{false, true} {
		c, err := compiler.New()
		if err != nil {
			t.Fatal(err)
		}
		input := func(src string) *compiler.Code {
			ast, err := parser.Parse(ctx, src)
			if err != nil {
				t.Fatal(err)
			}
			code, err := c.Compile(ast)
			if err != nil {
				t.Fatal(err)
			}
			return code
		}
		v := vm.New(input("x := 5"))
		if err := v.Run(ctx); err != nil {
			t.Fatal(err)
		}
		if interleave {
			if err := v.RunCode(ctx, c07f3Compile(t, c07f3Other)); err != nil {
				t.Fatal(err)
			}
		}
		input("x + 1")
		err = v.Run(ctx)
		if err != nil || c07f3Result(v) != "6" {
			t.Errorf("interleaved RunCode=%v: Run of input \"x + 1\": err=%v result=%s, want err=<nil> result=6",
				interleave, err, c07f3Result(v))
		}
	}
}
