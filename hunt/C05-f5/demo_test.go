package risor_test

import (
	"context"
	"fmt"
	"sort"
	"strings"
	"testing"

	"github.com/risor-io/risor"
	ros "github.com/risor-io/risor/os"
)

func TestC05F5VirtualOSEnvironIsDeterministic(t *testing.T) {
	ctx := context.Background()
	seen := map[string]int{}
	for i := 0; i < 200; i++ {
		vos := ros.NewVirtualOS(ctx, ros.WithEnvironment(map[string]string{
			"HOME": "/home/u", "LANG": "C", "PATH": "/bin",
		}))
		res, err := risor.Eval(ctx, `os.environ()`, risor.WithOS(vos))
		if err != nil {
			t.Fatal(err)
		}
		seen[res.Inspect()]++
	}
	if len(seen) != 1 {
		var lines []string
		for msg, n := range seen {
			lines = append(lines, fmt.Sprintf("  %s  (x%d)", msg, n))
		}
		sort.Strings(lines)
		t.Fatalf("os.environ() with the same virtual environment gave %d different results in 200 evaluations:\n%s",
			len(seen), strings.Join(lines, "\n"))
	}
}
