package risor_test

// C18 finding 3 (minor): the global state the host reads with vm.Get differs
// between incremental and whole-program evaluation when a top-level function
// has the name of a variable of an earlier top-level block. Copy into the
// repository root (package directory of github.com/risor-io/risor) and run
//
//	go test -run 'TestC18F3' .
import (
	"context"
	"strings"
	"testing"

	"github.com/risor-io/risor"
	"github.com/risor-io/risor/compiler"
	"github.com/risor-io/risor/parser"
	"github.com/risor-io/risor/vm"
)

// c18f3Get feeds the pieces to one compiler and one VM, like the REPL does, and
// then asks the VM for the global with the given name.
func c18f3Get(t *testing.T, name string, pieces ...string) string {
	t.Helper()
	ctx := context.Background()
	cfg := risor.NewConfig()
	c, err := compiler.New(cfg.CompilerOpts()...)
	if err != nil {
		t.Fatal(err)
	}
	var v *vm.VirtualMachine
	for _, piece := range pieces {
		ast, err := parser.Parse(ctx, piece)
		if err != nil {
			t.Fatal(err)
		}
		code, err := c.Compile(ast)
		if err != nil {
			t.Fatal(err)
		}
		if v == nil {
			v = vm.New(code, cfg.VMOpts()...)
		}
		if err := v.Run(ctx); err != nil {
			t.Fatal(err)
		}
	}
	value, err := v.Get(name)
	if err != nil {
		t.Fatal(err)
	}
	if value == nil {
		return "<unset>"
	}
	return value.Inspect()
}

func TestC18F3_GetAfterIncrementalEvaluation(t *testing.T) {
	stmts := []string{
		`for f := range [1, 2] { }`, // f is local to the loop
		`func f() { return 7 }`,     // the global f
		`r := f()`,                  // both ways of evaluation agree that f is the function: r == 7
	}
	for _, name := range []string{"r", "f"} {
		want := c18f3Get(t, name, strings.Join(stmts, "\n"))
		got := c18f3Get(t, name, stmts...)
		if got != want {
			t.Errorf("global %q after incremental evaluation: %s, after evaluation at once: %s", name, got, want)
		}
	}
}
