package risor_test

import (
	"context"
	"testing"

	"github.com/risor-io/risor"
)

func c15f2Eval(t *testing.T, src string) string {
	t.Helper()
	v, err := risor.Eval(context.Background(), src)
	if err != nil {
		return "error: " + err.Error()
	}
	return v.Inspect()
}

// "membership tests (in) agree with iterating and comparing": x in c  <=>  some item of c is == x.
func TestC15F2_SetMembershipDisagreesWithIterateAndCompare(t *testing.T) {
	cases := []struct{ x, set string }{
		{"1.0", "{1}"},
		{"1", "{1.0}"},
		{"byte(1)", "{1}"},
		{"1", "{byte(1)}"},
		{"2.0", "{1, 2, 3}"},
	}
	for _, c := range cases {
		in := c15f2Eval(t, c.x+" in "+c.set)
		notIn := c15f2Eval(t, c.x+" not in "+c.set)
		iter := c15f2Eval(t, `s := `+c.set+`; found := false; for y := range s { if y == `+c.x+` { found = true } }; found`)
		asList := c15f2Eval(t, c.x+" in list("+c.set+")")
		if in != iter || in != asList {
			t.Errorf("%s in %s = %s (not in = %s), but iterating the set and comparing with == finds it: %s; %s in list(%s) = %s",
				c.x, c.set, in, notIn, iter, c.x, c.set, asList)
		}
	}
}
