package localfs_test

import (
	"context"
	"os"
	"path/filepath"
	"strings"
	"testing"

	"github.com/risor-io/risor/os/localfs"
)

// A local filesystem rooted at <base> must never operate on a host path
// outside <base>. MkdirTemp with an empty dir argument creates the directory
// in the HOST temporary directory instead.
func TestC13F1_LocalfsMkdirTempEmptyDirEscapesBase(t *testing.T) {
	// Point the host temp dir at a directory we control, next to (not inside)
	// the base, so that the demo leaves nothing behind.
	parent := t.TempDir()
	hostTmp := filepath.Join(parent, "hosttmp")
	base := filepath.Join(parent, "base")
	for _, d := range []string{hostTmp, base} {
		if err := os.Mkdir(d, 0o755); err != nil {
			t.Fatal(err)
		}
	}
	t.Setenv("TMPDIR", hostTmp)

	lfs, err := localfs.New(context.Background(), localfs.WithBase(base))
	if err != nil {
		t.Fatal(err)
	}

	got, err := lfs.MkdirTemp("", "escape")
	if err != nil {
		// Refusing would be fine; operating outside base is not.
		t.Logf("MkdirTemp refused: %v", err)
		return
	}
	t.Logf("base     = %s", base)
	t.Logf("returned = %s", got)

	inBase, _ := os.ReadDir(base)
	inHostTmp, _ := os.ReadDir(hostTmp)
	t.Logf("entries in base: %d, entries in host temp dir: %d", len(inBase), len(inHostTmp))

	if len(inHostTmp) != 0 {
		t.Errorf("rooted filesystem created %q in the host temp dir %q, outside its base %q",
			inHostTmp[0].Name(), hostTmp, base)
	}
	if got != base && !strings.HasPrefix(got, base+string(filepath.Separator)) {
		t.Errorf("returned directory %q is not inside base %q", got, base)
	}
}
