package risor_test

// Finding 1: a closure cannot be called on a VM that has not (or no longer has)
// loaded the root code the closure was compiled under. vm.loadCode dereferences
// a nil *code and the call ends with "panic: runtime error: invalid memory
// address or nil pointer dereference" instead of running the closure with its
// captured variables.
//
// Copy into the repository root (package directory of github.com/risor-io/risor)
// and run:
//
//	go test -run 'TestC02F1' -v .

import (
	"context"
	"os"
	"path/filepath"
	"testing"

	"github.com/risor-io/risor"
	"github.com/risor-io/risor/compiler"
	"github.com/risor-io/risor/object"
	"github.com/risor-io/risor/parser"
	"github.com/risor-io/risor/vm"
)

func c02f1Compile(t *testing.T, src string) *compiler.Code {
	t.Helper()
	ast, err := parser.Parse(context.Background(), src)
	if err != nil {
		t.Fatal(err)
	}
	code, err := compiler.Compile(ast)
	if err != nil {
		t.Fatal(err)
	}
	return code
}

// Variant A - a single Risor program. A module is imported for the first time
// inside a spawned goroutine; a closure made by the module travels to the main
// thread through a channel and is called there. The same program with the
// import in the main thread returns 2.
func TestC02F1_ClosureFromGoroutineImport(t *testing.T) {
	dir := t.TempDir()
	module := "func make_counter() { n := 0; return func() { n++; return n } }\n"
	if err := os.WriteFile(filepath.Join(dir, "cnt.risor"), []byte(module), 0o644); err != nil {
		t.Fatal(err)
	}
	ctx := context.Background()

	control := `
import cnt
f := cnt.make_counter()
f(); f()
`
	res, err := risor.Eval(ctx, control, risor.WithConcurrency(), risor.WithLocalImporter(dir))
	if err != nil || res.Inspect() != "2" {
		t.Fatalf("control program: got %v, %v; want 2", res, err)
	}

	src := `
c := chan(1)
go func() { import cnt; c <- cnt.make_counter() }()
f := <-c
f(); f()
`
	res, err = risor.Eval(ctx, src, risor.WithConcurrency(), risor.WithLocalImporter(dir))
	if err != nil {
		t.Fatalf("closure received from the goroutine could not be called: %v", err)
	}
	if res.Inspect() != "2" {
		t.Fatalf("got %s, want 2", res.Inspect())
	}
}

// Variant B - the VM's Call API. A closure is fetched from Go after a run; it
// can be called. After the same VM has run some other code it cannot be called
// any more, although nothing it uses has changed (it only touches its own
// captured variable n).
func TestC02F1_CallAfterRunCode(t *testing.T) {
	ctx := context.Background()
	m, err := vm.NewEmpty()
	if err != nil {
		t.Fatal(err)
	}
	codeA := c02f1Compile(t, `func mk() { n := 0; return func() { n++; return n } }; mk()`)
	if err := m.RunCode(ctx, codeA); err != nil {
		t.Fatal(err)
	}
	tos, _ := m.TOS()
	counter := tos.(*object.Function)

	got, err := m.Call(ctx, counter, nil)
	if err != nil || got.Inspect() != "1" {
		t.Fatalf("first call: got %v, %v; want 1", got, err)
	}

	if err := m.RunCode(ctx, c02f1Compile(t, `1 + 1`)); err != nil {
		t.Fatal(err)
	}

	got, err = m.Call(ctx, counter, nil)
	if err != nil {
		t.Fatalf("second call (after RunCode of other code): %v; want 2", err)
	}
	if got.Inspect() != "2" {
		t.Fatalf("second call: got %s, want 2", got.Inspect())
	}
}

// Variant C - a closure returned by one Eval is handed to a later Eval as a
// global (a host callback) and called from Risor code there. Also: calling it
// through Call on a fresh VM, which the documentation of Call explicitly
// considers ("it could be a closure over variables there").
func TestC02F1_ClosureAsGlobalOfLaterEval(t *testing.T) {
	ctx := context.Background()
	res, err := risor.Eval(ctx, `func mk() { n := 0; return func() { n++; return n } }; mk()`)
	if err != nil {
		t.Fatal(err)
	}
	counter := res.(*object.Function)

	got, err := risor.Eval(ctx, `cb(); cb()`, risor.WithGlobal("cb", counter))
	if err != nil {
		t.Errorf("closure as a global of a later Eval: %v; want 2", err)
	} else if got.Inspect() != "2" {
		t.Errorf("closure as a global of a later Eval: got %s, want 2", got.Inspect())
	}

	fresh, _ := vm.NewEmpty()
	got, err = fresh.Call(ctx, counter, nil)
	if err != nil {
		t.Errorf("Call on a fresh VM: %v; want 3", err)
	} else if got.Inspect() != "3" {
		t.Errorf("Call on a fresh VM: got %s, want 3", got.Inspect())
	}
}

// Variant D - the silent form of the same defect. When the VM *does* have a
// root code loaded under the same *compiler.Code (the same compiled program was
// run again, on this or on another VM), a function of the earlier run is
// executed against the globals of the later run: it reads and writes a
// different binding of `count` than the one that was visible where it was
// defined.
func TestC02F1_FunctionOfEarlierRunUsesGlobalsOfLaterRun(t *testing.T) {
	ctx := context.Background()
	code := c02f1Compile(t, "count := 0\nfunc inc() { count++; return count }\ninc")

	m1, _ := vm.NewEmpty()
	if err := m1.RunCode(ctx, code); err != nil {
		t.Fatal(err)
	}
	tos, _ := m1.TOS()
	inc1 := tos.(*object.Function)
	m1.Call(ctx, inc1, nil)
	m1.Call(ctx, inc1, nil) // count of run 1 is 2 now

	// Compile once, run on a second VM (a second, independent run)
	m2, _ := vm.NewEmpty()
	if err := m2.RunCode(ctx, code); err != nil {
		t.Fatal(err)
	}
	got, err := m2.Call(ctx, inc1, nil)
	if err != nil {
		t.Fatal(err)
	}
	count1, _ := m1.Get("count")
	count2, _ := m2.Get("count")
	if got.Inspect() != "3" || count1.Inspect() != "3" || count2.Inspect() != "0" {
		t.Fatalf("inc of run 1 returned %s, count of run 1 = %s, count of run 2 = %s; "+
			"want 3, 3, 0 (inc of run 1 is bound to the count of run 1)",
			got.Inspect(), count1.Inspect(), count2.Inspect())
	}
}
