package parser_test

import (
	"context"
	"strings"
	"testing"

	"github.com/risor-io/risor/parser"
)

// The message of a syntax error inside a template string is built by passing
// text that comes from the source as a fmt format string. A "%" in that text
// makes fmt emit its failure markers ("%!o(MISSING)", "%!(NOVERB)") and the
// message no longer shows the source text.
func TestC20HuntF6PercentInTemplateError(t *testing.T) {
	for _, src := range []string{
		"x := '100% of {total'\n", // missing '}' in template
		"x := 'rate: {a + %b}'\n", // unexpected "%" inside the braces
		"x := '{ %'\n",
	} {
		_, err := parser.Parse(context.Background(), src)
		if err == nil {
			t.Fatalf("%q: expected a syntax error", src)
		}
		pe, ok := err.(parser.ParserError)
		if !ok {
			t.Fatalf("%q: expected parser error, got %T", src, err)
		}
		msg := pe.FriendlyErrorMessage()
		t.Logf("%q ->\n%s", src, msg)
		for _, marker := range []string{"(MISSING)", "(NOVERB)", "%!"} {
			if strings.Contains(pe.Error(), marker) {
				t.Errorf("%q: rendering of the message failed, it contains the fmt marker %q: %q", src, marker, pe.Error())
				break
			}
		}
	}
}
