package risor_test

import (
	"context"
	"os"
	"os/exec"
	"strings"
	"testing"
	"time"

	"github.com/risor-io/risor"
)

// A list that contains itself is a legal value (l.append(l)); Inspect() already
// guards against it ("[...]"). Membership, ==, count, index and remove on such a
// list must terminate with a result or a risor error. On the unchanged tree they
// recurse without bound and the Go runtime kills the whole host process
// ("fatal error: stack overflow", not recoverable).
//
// The script runs in a child process (this test binary re-executed) so that the
// parent can report the crash as an ordinary test failure.
func TestC16F4SelfContainingList(t *testing.T) {
	scripts := []string{
		`l := [1]; l.append(l); l in l`,         // model: true
		`l := [1]; l.append(l); l.index(l)`,     // model: 1
		`l := [1]; l.append(l); l == l`,         // model: true
		`m := {"a": 1}; m["m"] = m; m == m`,     // model: true
		`l := [1]; l.append(l); k := [1]; k.append(k); l == k`, // any answer or an error, but no crash
	}
	if src := os.Getenv("C16_F4_CHILD"); src != "" {
		res, err := risor.Eval(context.Background(), src)
		if err != nil {
			os.Stdout.WriteString("RISOR-ERROR " + err.Error() + "\n")
		} else {
			os.Stdout.WriteString("RESULT " + res.Inspect() + "\n")
		}
		return
	}
	for _, src := range scripts {
		ctx, cancel := context.WithTimeout(context.Background(), 5*time.Minute)
		cmd := exec.CommandContext(ctx, os.Args[0], "-test.run", "^TestC16F4SelfContainingList$")
		cmd.Env = append(os.Environ(), "C16_F4_CHILD="+src)
		out, err := cmd.CombinedOutput()
		cancel()
		text := string(out)
		if err != nil {
			first := text
			if i := strings.Index(text, "\n\n"); i > 0 {
				first = text[:i]
			}
			if len(first) > 400 {
				first = first[:400]
			}
			t.Errorf("%s\n  host process died (%v):\n%s", src, err, first)
			continue
		}
		t.Logf("%s\n  %s", src, strings.TrimSpace(text))
	}
}
