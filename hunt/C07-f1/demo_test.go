package risor_test

// C07 finding f1: a RunCode / Eval(WithVM) that was refused because one of its
// globals cannot be converted poisons the VM: every later RunCode on that VM
// fails with the same error, whatever its own code and options are.

import (
	"context"
	"testing"

	"github.com/risor-io/risor"
	"github.com/risor-io/risor/compiler"
	"github.com/risor-io/risor/parser"
	"github.com/risor-io/risor/vm"
)

func c07f1Compile(t *testing.T, src string, globalNames ...string) *compiler.Code {
	t.Helper()
	ast, err := parser.Parse(context.Background(), src)
	if err != nil {
		t.Fatal(err)
	}
	code, err := compiler.Compile(ast, compiler.WithGlobalNames(globalNames))
	if err != nil {
		t.Fatal(err)
	}
	return code
}

func TestC07F1_VMLevel(t *testing.T) {
	ctx := context.Background()

	// Reference: the later invocations on a VM without the failed invocation
	ref, _ := vm.NewEmpty()
	if err := ref.RunCode(ctx, c07f1Compile(t, "40 + 2")); err != nil {
		t.Fatalf("reference run failed: %v", err)
	}

	v, _ := vm.NewEmpty()
	// invocation 1 ends with an error: a channel cannot become a Risor object
	err := v.RunCode(ctx, c07f1Compile(t, "1"), vm.WithGlobals(map[string]any{"bad": make(chan int)}))
	if err == nil {
		t.Fatal("expected the first invocation to be refused")
	}
	t.Logf("invocation 1 (expected to fail): %v", err)

	// invocation 2: no options at all
	if err := v.RunCode(ctx, c07f1Compile(t, "40 + 2")); err != nil {
		t.Errorf("invocation 2 (RunCode \"40 + 2\", no options) failed because of invocation 1: %v", err)
	}
	// invocation 3: its own, perfectly valid globals
	err = v.RunCode(ctx, c07f1Compile(t, "x + 1", "x"), vm.WithGlobals(map[string]any{"x": 41}))
	if err != nil {
		t.Errorf("invocation 3 (RunCode \"x + 1\" with x=41) failed because of invocation 1: %v", err)
	}
}

func TestC07F1_Eval(t *testing.T) {
	ctx := context.Background()
	v, _ := vm.NewEmpty()
	_, err := risor.Eval(ctx, "1", risor.WithVM(v), risor.WithGlobal("bad", make(chan int)))
	if err == nil {
		t.Fatal("expected the first Eval to be refused")
	}
	res, err := risor.Eval(ctx, "40 + 2", risor.WithVM(v))
	if err != nil {
		t.Fatalf("Eval(\"40 + 2\") on the reused VM failed because of the earlier Eval: %v", err)
	}
	if res.Inspect() != "42" {
		t.Fatalf("got %s, want 42", res.Inspect())
	}
}
