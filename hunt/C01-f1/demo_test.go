package risor_test

import (
	"context"
	"testing"

	"github.com/risor-io/risor"
)

// evalC01PipeNestedCall evaluates a program and renders the outcome: the inspected value,
// or "ERR: " followed by the error text.
func evalC01PipeNestedCall(src string) string {
	v, err := risor.Eval(context.Background(), src)
	if err != nil {
		return "ERR: " + err.Error()
	}
	return v.Inspect()
}

func TestC01HuntPipeNestedCall(t *testing.T) {
	cases := []struct{ name, src, want string }{
		{"call inside a pipe stage argument",
			`func pair(a, b) { return [a, b] }; func one() { return 1 }; 5 | pair(one())`,
			`[5, 1]`},
		{"method call inside a pipe stage argument",
			"`a,b` | strings.split(`,`.to_lower())",
			`["a", "b"]`},
		{"call inside an index inside a pipe stage argument",
			`func dbl(x) { return x * 2 }; func pair(a, b) { return [a, b] }; 5 | pair([dbl(1)][0])`,
			`[5, 2]`},
		{"call inside a template string inside a pipe stage argument",
			"func pair(a, b) { return [a, b] }; 5 | pair('{len(\"ab\")}')",
			`[5, "2"]`},
	}
	for _, c := range cases {
		got := evalC01PipeNestedCall(c.src)
		if got != c.want {
			t.Errorf("%s\n  program: %s\n  want:    %s\n  got:     %s", c.name, c.src, c.want, got)
		}
	}
}
