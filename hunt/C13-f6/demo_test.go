package localfs_test

import (
	"context"
	"os"
	"path/filepath"
	"testing"

	"github.com/risor-io/risor/os/localfs"
)

// A filesystem created with a relative base ("sandbox") is rooted at the
// directory that name denotes when the filesystem is created. New only Cleans
// the string; every later operation joins the still-relative base with the
// path and lets the kernel resolve it against the process working directory of
// THAT moment. After a chdir of the process (the host, another goroutine, or a
// script through the default SimpleOS os.chdir) the same filesystem object
// operates on <new cwd>/sandbox, a host directory outside the one it was
// rooted at.
func TestC13F6_RelativeBaseFollowsProcessCwd(t *testing.T) {
	first, second := t.TempDir(), t.TempDir()
	for _, d := range []string{first, second} {
		if err := os.Mkdir(filepath.Join(d, "sandbox"), 0o755); err != nil {
			t.Fatal(err)
		}
	}
	orig, err := os.Getwd()
	if err != nil {
		t.Fatal(err)
	}
	defer os.Chdir(orig)

	if err := os.Chdir(first); err != nil {
		t.Fatal(err)
	}
	lfs, err := localfs.New(context.Background(), localfs.WithBase("sandbox"))
	if err != nil {
		t.Fatal(err)
	}
	if err := lfs.WriteFile("one.txt", []byte("1"), 0o644); err != nil {
		t.Fatal(err)
	}
	if _, err := os.Stat(filepath.Join(first, "sandbox", "one.txt")); err != nil {
		t.Fatalf("sanity: %v", err)
	}

	// The process working directory changes; the filesystem object is the same.
	if err := os.Chdir(second); err != nil {
		t.Fatal(err)
	}
	werr := lfs.WriteFile("two.txt", []byte("2"), 0o644)

	if _, err := os.Stat(filepath.Join(second, "sandbox", "two.txt")); err == nil {
		t.Errorf("WriteFile(two.txt) wrote %s: outside the base directory %s the filesystem was rooted at",
			filepath.Join(second, "sandbox", "two.txt"), filepath.Join(first, "sandbox"))
	}
	if _, err := os.Stat(filepath.Join(first, "sandbox", "two.txt")); err != nil {
		t.Errorf("two.txt is not in the base directory %s (WriteFile err=%v)", filepath.Join(first, "sandbox"), werr)
	}
	if _, err := lfs.Stat("one.txt"); err != nil {
		t.Errorf("Stat(one.txt), written through the same filesystem before the chdir: %v", err)
	}
}
