package os_test

import (
	"context"
	"os"
	"path/filepath"
	"testing"

	ros "github.com/risor-io/risor/os"
	"github.com/risor-io/risor/os/localfs"
)

// Mount points written with a trailing separator ("/a/", "/a/b/"; the CLI
// passes dst=... through unchanged and isUnderMount has a special case for
// targets that end in "/"). The path "/a/b" names the mount point of the inner
// mount, so the inner mount is its longest component-wise prefix. findMount
// compares the un-normalised key "/a/b/" with the cleaned path "/a/b", finds
// only "/a/" and serves the path as "b" from the OUTER mount. "/a" (the outer
// mount point itself) is refused although it is a mount point.
func TestC13F3_TrailingSlashMountPointServedByParentMount(t *testing.T) {
	outerBase, innerBase := t.TempDir(), t.TempDir()
	ctx := context.Background()
	outer, err := localfs.New(ctx, localfs.WithBase(outerBase))
	if err != nil {
		t.Fatal(err)
	}
	inner, err := localfs.New(ctx, localfs.WithBase(innerBase))
	if err != nil {
		t.Fatal(err)
	}
	if err := os.WriteFile(filepath.Join(innerBase, "marker.txt"), []byte("inner"), 0o644); err != nil {
		t.Fatal(err)
	}
	vos := ros.NewVirtualOS(ctx, ros.WithMounts(map[string]*ros.Mount{
		"/a/":   {Source: outer, Target: "/a/"},
		"/a/b/": {Source: inner, Target: "/a/b/"},
	}))

	// Sanity: with the trailing separator the inner mount answers.
	if entries, err := vos.ReadDir("/a/b/"); err != nil || len(entries) != 1 {
		t.Fatalf("ReadDir(/a/b/) = %v, %v; want the inner mount's marker.txt", entries, err)
	}

	// The same directory named without the trailing separator (and spelled
	// in two more ways that Clean to it) must be served by the inner mount too.
	for _, p := range []string{"/a/b", "/a/b/.", "/a/b/x/.."} {
		entries, err := vos.ReadDir(p)
		if err != nil {
			t.Errorf("ReadDir(%q): %v; want the inner mount's root listing", p, err)
			continue
		}
		if len(entries) != 1 || entries[0].Name() != "marker.txt" {
			t.Errorf("ReadDir(%q) = %d entries; want [marker.txt] from the inner mount", p, len(entries))
		}
	}

	// A write to "/a/b" lands in the OUTER mount's source as a file named "b".
	werr := vos.WriteFile("/a/b", []byte("data"), 0o644)
	if _, err := os.Stat(filepath.Join(outerBase, "b")); err == nil {
		t.Errorf("WriteFile(/a/b) (err=%v) created <outerBase>/b: the path was served by mount /a/ although /a/b/ is its longest component-wise prefix", werr)
	}

	// The outer mount point itself, without trailing separator, is refused.
	if _, err := vos.Stat("/a"); err != nil {
		t.Errorf("Stat(/a): %v; want the root of mount /a/", err)
	}
}
