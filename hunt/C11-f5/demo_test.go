package risor_test

import (
	"context"
	"testing"

	"github.com/risor-io/risor"
	"github.com/risor-io/risor/compiler"
	"github.com/risor-io/risor/object"
	"github.com/risor-io/risor/parser"
	"github.com/risor-io/risor/vm"
)

// The host builds the default globals once (risor.DefaultGlobals is public for
// this purpose) and uses them for two configurations. Removing a module member
// in one configuration removes it in the other as well.
func TestC11F5_RemovalInOneConfigurationChangesAnother(t *testing.T) {
	ctx := context.Background()
	shared := risor.DefaultGlobals()

	// Configuration 2, before configuration 1 exists: os.exit is there
	res, err := risor.Eval(ctx, `os.exit`, risor.WithoutDefaultGlobals(), risor.WithGlobals(shared))
	if err != nil {
		t.Fatalf("before: res=%v err=%v", res, err)
	}

	// Configuration 1 removes os.exit - for itself, one would think
	if _, err := risor.Eval(ctx, `1`, risor.WithoutDefaultGlobals(), risor.WithGlobals(shared),
		risor.WithoutGlobal("os.exit")); err != nil {
		t.Fatal(err)
	}

	// Configuration 2 again, unchanged options
	res, err = risor.Eval(ctx, `os.exit`, risor.WithoutDefaultGlobals(), risor.WithGlobals(shared))
	if err != nil {
		t.Errorf("configuration 2 removes nothing, but after configuration 1 was built: %v", err)
	}
}

func TestC11F5_OverrideInOneConfigurationChangesAnother(t *testing.T) {
	ctx := context.Background()
	shared := risor.DefaultGlobals()
	fake := object.NewBuiltin("getenv", func(ctx context.Context, args ...object.Object) object.Object {
		return object.NewString("FAKE")
	})
	t.Setenv("C11_VALUE", "real")

	if _, err := risor.Eval(ctx, `1`, risor.WithoutDefaultGlobals(), risor.WithGlobals(shared),
		risor.WithGlobalOverride("os.getenv", fake)); err != nil {
		t.Fatal(err)
	}
	res, err := risor.Eval(ctx, `os.getenv("C11_VALUE")`, risor.WithoutDefaultGlobals(), risor.WithGlobals(shared))
	if err != nil || res.Inspect() != `"real"` {
		t.Errorf("configuration 2 overrides nothing, but os.getenv(\"C11_VALUE\") = %v (err=%v)", res, err)
	}
}

// The same through Config.Globals(): deriving a stricter configuration from the
// globals of a base configuration changes the base configuration.
func TestC11F5_DerivedConfigurationChangesBase(t *testing.T) {
	ctx := context.Background()
	base := risor.NewConfig()

	run := func() (object.Object, error) {
		ast, err := parser.Parse(ctx, `os.exit`)
		if err != nil {
			return nil, err
		}
		code, err := compiler.Compile(ast, base.CompilerOpts()...)
		if err != nil {
			return nil, err
		}
		return vm.Run(ctx, code, base.VMOpts()...)
	}
	if _, err := run(); err != nil {
		t.Fatalf("before: %v", err)
	}
	risor.NewConfig(risor.WithoutDefaultGlobals(), risor.WithGlobals(base.Globals()),
		risor.WithoutGlobal("os.exit"))
	if _, err := run(); err != nil {
		t.Errorf("base configuration after a derived configuration removed os.exit: %v", err)
	}
}
