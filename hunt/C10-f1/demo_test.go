package risor

// Finding 1: two goroutines that drain one channel with map(c) share the
// channel's iteration bookkeeping: values are lost and others delivered twice.
//
// Copy into the repository root (package risor) and run:
//   go test -run TestC10MapOverSharedChannel -count=1 .

import (
	"context"
	"runtime"
	"testing"
	"time"

	"github.com/risor-io/risor/object"
)

func TestC10MapOverSharedChannel(t *testing.T) {
	prev := runtime.GOMAXPROCS(4)
	defer runtime.GOMAXPROCS(prev)

	// One sender sends the ints 0..N-1 and closes the channel. Two receivers
	// each collect what they receive with map(c) (index -> value). Every sent
	// value has to show up in exactly one of the two maps.
	const src = `
c := chan(B)
recv := func() { return map(c) }
r1 := spawn(recv)
r2 := spawn(recv)
for i := 0; i < N; i++ { c <- i }
close(c)
[r1.wait(), r2.wait()]
`
	const N = 2000
	for round := 0; round < 20; round++ {
		for _, B := range []int{0, 1, 8} {
			ctx, cancel := context.WithTimeout(context.Background(), 30*time.Second)
			res, err := Eval(ctx, src, WithConcurrency(),
				WithGlobals(map[string]any{"N": N, "B": B}))
			cancel()
			if err != nil {
				t.Fatalf("unexpected error: %v", err)
			}
			seen := map[int64]int{}
			total := 0
			for _, m := range res.(*object.List).Value() {
				for _, v := range m.(*object.Map).Value() {
					seen[v.(*object.Int).Value()]++
					total++
				}
			}
			var lost, dup []int64
			for i := int64(0); i < N; i++ {
				switch n := seen[i]; {
				case n == 0:
					lost = append(lost, i)
				case n > 1:
					dup = append(dup, i)
				}
			}
			if len(lost) > 0 || len(dup) > 0 {
				if len(lost) > 5 {
					lost = lost[:5]
				}
				if len(dup) > 5 {
					dup = dup[:5]
				}
				t.Fatalf("round %d, buffer %d: %d values sent, %d entries received; "+
					"lost (first few): %v; received twice (first few): %v",
					round, B, N, total, lost, dup)
			}
		}
	}
}
