package risor_test

// C12 finding f1: os.stdout / os.stderr / os.stdin are resolved once per os
// module object and cached, so they keep pointing at the OS that was in effect
// at the first access, no matter which OS the host supplies afterwards.
//
// Copy into the repository root (package directory of github.com/risor-io/risor)
// and run:  go test -run 'TestC12F1' .

import (
	"context"
	"io"
	goos "os"
	"testing"

	"github.com/risor-io/risor"
	"github.com/risor-io/risor/compiler"
	"github.com/risor-io/risor/object"
	ros "github.com/risor-io/risor/os"
	"github.com/risor-io/risor/parser"
	"github.com/risor-io/risor/vm"
)

// f1CaptureRealStdout swaps the process-wide os.Stdout for a pipe while fn
// runs and returns everything that was written to the real standard output.
func f1CaptureRealStdout(t *testing.T, fn func()) string {
	t.Helper()
	orig := goos.Stdout
	r, w, err := goos.Pipe()
	if err != nil {
		t.Fatal(err)
	}
	goos.Stdout = w
	done := make(chan string)
	go func() {
		b, _ := io.ReadAll(r)
		done <- string(b)
	}()
	func() {
		defer func() { goos.Stdout = orig }()
		fn()
	}()
	w.Close()
	return <-done
}

// A host builds the standard globals once and uses them for two evaluations:
// the first without an OS of its own, the second with a virtual OS.
func TestC12F1_SharedGlobals_RealStdoutReached(t *testing.T) {
	ctx := context.Background()
	globals := risor.DefaultGlobals()
	src := `os.stdout.write("secret-" + TAG + "\n")`

	virtualOut := ros.NewBufferFile(nil)
	vos := ros.NewVirtualOS(ctx, ros.WithStdout(virtualOut))

	real := f1CaptureRealStdout(t, func() {
		// Run 1: no host OS. Writing to the real stdout is expected here.
		if _, err := risor.Eval(ctx, src,
			risor.WithoutDefaultGlobals(), risor.WithGlobals(globals),
			risor.WithGlobal("TAG", "one")); err != nil {
			t.Fatal(err)
		}
		// Run 2: the host supplies an OS. Nothing may reach the real stdout.
		if _, err := risor.Eval(ctx, src,
			risor.WithoutDefaultGlobals(), risor.WithGlobals(globals),
			risor.WithGlobal("TAG", "two"), risor.WithOS(vos)); err != nil {
			t.Fatal(err)
		}
	})

	if got := string(virtualOut.Bytes()); got != "secret-two\n" {
		t.Errorf("host-supplied stdout received %q, want %q", got, "secret-two\n")
	}
	if real != "secret-one\n" {
		t.Errorf("real process stdout received %q, want only %q (run 2 had a host OS)", real, "secret-one\n")
	}
}

// One VM serves two requests; each request carries its own OS in the context.
func TestC12F1_ReusedVM_PerRequestContextOS(t *testing.T) {
	ctx := context.Background()
	cfg := risor.NewConfig(risor.WithConcurrency())
	ast, err := parser.Parse(ctx, `func handler(tag) { os.stdout.write("req-" + tag + "\n"); print("print-" + tag) }`)
	if err != nil {
		t.Fatal(err)
	}
	code, err := compiler.Compile(ast, cfg.CompilerOpts()...)
	if err != nil {
		t.Fatal(err)
	}
	machine := vm.New(code, cfg.VMOpts()...)
	if err := machine.Run(ctx); err != nil {
		t.Fatal(err)
	}
	fnObj, err := machine.Get("handler")
	if err != nil {
		t.Fatal(err)
	}
	handler := fnObj.(*object.Function)

	outA := ros.NewBufferFile(nil)
	outB := ros.NewBufferFile(nil)
	ctxA := ros.WithOS(ctx, ros.NewVirtualOS(ctx, ros.WithStdout(outA)))
	ctxB := ros.WithOS(ctx, ros.NewVirtualOS(ctx, ros.WithStdout(outB)))

	if _, err := machine.Call(ctxA, handler, []object.Object{object.NewString("A")}); err != nil {
		t.Fatal(err)
	}
	if _, err := machine.Call(ctxB, handler, []object.Object{object.NewString("B")}); err != nil {
		t.Fatal(err)
	}

	// print() is mediated correctly, os.stdout.write() is not.
	if got, want := string(outA.Bytes()), "req-A\nprint-A\n"; got != want {
		t.Errorf("stdout of OS A = %q, want %q", got, want)
	}
	if got, want := string(outB.Bytes()), "req-B\nprint-B\n"; got != want {
		t.Errorf("stdout of OS B = %q, want %q", got, want)
	}
}
