package risor_test

import (
	"context"
	"testing"

	"github.com/risor-io/risor"
)

// Compound item assignment must read and write the SAME slot, and evaluate the
// container and index expressions once.
func TestC16F1CompoundItemAssignmentEvaluatesIndexOnce(t *testing.T) {
	cases := []struct{ src, want string }{
		// the index comes from an expression with a side effect
		{`l := [10, 20]; idx := [0, 1]; l[idx.pop(0)] += 5; [l, idx]`, `[[15, 20], [1]]`},
		// counting the evaluations of the index expression
		{`n := 0; f := func() { n += 1; return 0 }; l := [10]; l[f()] += 5; [l, n]`, `[[15], 1]`},
		// the container expression is evaluated twice as well
		{`n := 0; l := [1]; g := func() { n += 1; return l }; g()[0] *= 3; [l, n]`, `[[3], 1]`},
		// same for maps
		{`m := {"a": 1, "b": 100}; ks := ["a", "b"]; m[ks.pop(0)] += 1; m`, `{"a": 2, "b": 100}`},
	}
	for _, c := range cases {
		res, err := risor.Eval(context.Background(), c.src)
		if err != nil {
			t.Errorf("%s\n  unexpected error: %v", c.src, err)
			continue
		}
		if got := res.Inspect(); got != c.want {
			t.Errorf("%s\n  got  %s\n  want %s", c.src, got, c.want)
		}
	}
}
