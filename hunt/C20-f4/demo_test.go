package parser_test

import (
	"context"
	"strings"
	"testing"

	"github.com/risor-io/risor/ast"
	"github.com/risor-io/risor/parser"
)

// Switching a source file from LF to CRLF line endings must not change the
// tree. A raw string that spans lines keeps the "\r" of every line ending.
func TestC20HuntF4CRLFRawString(t *testing.T) {
	lf := "x := `line one\nline two`\nprint(x)\n"
	crlf := strings.ReplaceAll(lf, "\n", "\r\n")

	value := func(src string) string {
		prog, err := parser.Parse(context.Background(), src)
		if err != nil {
			t.Fatalf("%q: %v", src, err)
		}
		var found *ast.String
		for _, stmt := range prog.Statements() {
			if d, ok := stmt.(*ast.Var); ok {
				_, expr := d.Value()
				if s, ok := expr.(*ast.String); ok {
					found = s
				}
			}
		}
		if found == nil {
			t.Fatalf("%q: no string node found in %s", src, prog.String())
		}
		return found.Value()
	}
	a, b := value(lf), value(crlf)
	if a != b {
		t.Errorf("string node differs between LF and CRLF version of the same file: %q vs %q", a, b)
	}
}
