package risor_test

import (
	"context"
	"testing"

	"github.com/risor-io/risor"
)

// A set holds no two equal members, and membership agrees with ==.
// In risor 1 == 1.0 == byte(1) are all true (in both directions).
func TestC16F9SetMembersAreDistinctUnderEquality(t *testing.T) {
	cases := []struct{ src, want string }{
		// the list answers with ==
		{`[1 == 1.0, 1.0 == 1, 1.0 in [1], [1] == [1.0]]`, `[true, true, true, true]`},
		// the set must give the same answers
		{`1.0 in {1}`, `true`},
		{`s := {1}; s.add(1.0); len(s)`, `1`},
		{`len({1, 1.0, byte(1)})`, `1`},
		{`{1} == {1.0}`, `true`},
		{`s := {1, 2}; s.remove(1.0); len(s)`, `1`},
		{`len({1}.union({1.0}))`, `1`},
		{`len({1}.intersection({1.0}))`, `1`},
		// the members of a set, as a list, contain no duplicates
		{`s := {1}; s.add(1.0); l := list(s); l.count(l[0])`, `1`},
	}
	for _, c := range cases {
		res, err := risor.Eval(context.Background(), c.src)
		if err != nil {
			t.Errorf("%s\n  unexpected error: %v", c.src, err)
			continue
		}
		if got := res.Inspect(); got != c.want {
			t.Errorf("%s\n  got  %s\n  want %s", c.src, got, c.want)
		}
	}
}
