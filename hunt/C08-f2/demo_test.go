package risor_test

import (
	"context"
	"fmt"
	"strings"
	"testing"

	"github.com/risor-io/risor"
)

type F2A struct{ X int }
type F2B struct{ Y string }

type F2Host struct {
	A *F2A
	B *F2B
}

func (h *F2Host) TakeB(b *F2B) string {
	if b == nil {
		return "nil"
	}
	return b.Y
}

func f2Eval(src string, h *F2Host) (res any, err error) {
	defer func() {
		if r := recover(); r != nil {
			err = fmt.Errorf("PANIC out of risor.Eval: %v", r)
		}
	}()
	return risor.Eval(context.Background(), src, risor.WithGlobal("h", h))
}

func f2Check(t *testing.T, src string) {
	h := &F2Host{A: &F2A{X: 1}, B: &F2B{Y: "b"}}
	_, err := f2Eval(src, h)
	if err == nil {
		t.Fatalf("%s: a *F2A was accepted where a *F2B is required", src)
	}
	if strings.Contains(strings.ToLower(err.Error()), "panic") {
		t.Fatalf("%s: not rejected cleanly, conversion panicked: %v", src, err)
	}
	if h.B == nil || h.B.Y != "b" {
		t.Fatalf("%s: field B changed to %v", src, h.B)
	}
}

// A proxy of another struct type written into a *F2B field.
func TestF2ForeignProxyIntoField(t *testing.T) { f2Check(t, `h.B = h.A`) }

// A proxy of another struct type passed to a *F2B parameter.
func TestF2ForeignProxyIntoParam(t *testing.T) { f2Check(t, `h.TakeB(h.A)`) }
