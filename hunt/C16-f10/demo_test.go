package risor_test

import (
	"context"
	"testing"

	"github.com/risor-io/risor"
)

// The items of a byte_slice are bytes: b[i] yields a byte, iteration yields bytes,
// byte_slice([..]) is built from ints. Item assignment must accept such a value.
func TestC16F10ByteSliceItemAssignmentAcceptsAByte(t *testing.T) {
	cases := []struct{ src, want string }{
		{`b := byte_slice("abc"); type(b[1])`, `"byte"`},
		// store what was just read from the same container
		{`b := byte_slice("abc"); b[0] = b[1]; string(b)`, `"bbc"`},
		// swap two items
		{`b := byte_slice("abc"); t := b[0]; b[0] = b[2]; b[2] = t; string(b)`, `"cba"`},
		// a byte value / an int in range
		{`b := byte_slice("abc"); b[0] = byte(120); string(b)`, `"xbc"`},
		{`b := byte_slice([1, 2, 3]); b[0] = 9; b[0]`, `9`},
		// compound assignment on an item
		{`b := byte_slice([1, 2, 3]); b[0] += 1; b[0]`, `2`},
	}
	for _, c := range cases {
		res, err := risor.Eval(context.Background(), c.src)
		if err != nil {
			t.Errorf("%s\n  unexpected error: %v", c.src, err)
			continue
		}
		if got := res.Inspect(); got != c.want {
			t.Errorf("%s\n  got  %s\n  want %s", c.src, got, c.want)
		}
	}
}
