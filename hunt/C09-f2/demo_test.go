package risor_test

import (
	"context"
	"sync"
	"testing"

	"github.com/risor-io/risor/compiler"
	"github.com/risor-io/risor/parser"
	"github.com/risor-io/risor/vm"
)

func c09f2Compile(t *testing.T, src string) *compiler.Code {
	ast, err := parser.Parse(context.Background(), src)
	if err != nil {
		t.Fatal(err)
	}
	main, err := compiler.Compile(ast)
	if err != nil {
		t.Fatal(err)
	}
	return main
}

// Clone from another goroutine while the VM runs RunCode again and again
func TestC09F2CloneVsRunCode(t *testing.T) {
	ctx := context.Background()
	main := c09f2Compile(t, `func f(a) { return a + 1 }; x := f(1); x`)
	v := vm.New(main, vm.WithConcurrency())
	if err := v.Run(ctx); err != nil {
		t.Fatal(err)
	}
	var wg sync.WaitGroup
	stop := make(chan struct{})
	wg.Add(1)
	go func() {
		defer wg.Done()
		for {
			select {
			case <-stop:
				return
			default:
			}
			if _, err := v.Clone(); err != nil {
				t.Error(err)
				return
			}
		}
	}()
	for i := 0; i < 200; i++ {
		if err := v.RunCode(ctx, main); err != nil {
			t.Fatal(err)
		}
	}
	close(stop)
	wg.Wait()
}

// Clone from another goroutine while the VM runs Run again and again (REPL)
func TestC09F2CloneVsRun(t *testing.T) {
	ctx := context.Background()
	main := c09f2Compile(t, `func f(a) { return a + 1 }; x := f(1); x`)
	v := vm.New(main, vm.WithConcurrency())
	if err := v.Run(ctx); err != nil {
		t.Fatal(err)
	}
	var wg sync.WaitGroup
	stop := make(chan struct{})
	wg.Add(1)
	go func() {
		defer wg.Done()
		for {
			select {
			case <-stop:
				return
			default:
			}
			if _, err := v.Clone(); err != nil {
				t.Error(err)
				return
			}
		}
	}()
	for i := 0; i < 200; i++ {
		if err := v.Run(ctx); err != nil {
			t.Fatal(err)
		}
	}
	close(stop)
	wg.Wait()
}
