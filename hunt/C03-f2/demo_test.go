package risor_test

import (
	"context"
	"os"
	"os/exec"
	"strings"
	"testing"
	"time"

	"github.com/risor-io/risor"
)

// With risor.WithConcurrency() a script may start goroutines (spawn / go).
// Risor maps are plain Go maps with no lock, so two script threads that store
// into one map make the Go runtime abort the whole process with
// "fatal error: concurrent map writes" - not a panic, so neither the recover()
// in object.NewThread nor the one in the VM can turn it into an error.
//
// The script runs in a child process (this same test binary) so that the
// parent can report the death of the child as an ordinary failure.
const c03f2Script = `
m := {}
ts := []
for i := 0; i < 8; i++ {
	ts.append(spawn(func(n) {
		for j := 0; j < 200000; j++ { m[string(j % 1000 + n)] = j }
	}, i))
}
for _, t := range ts { t.wait() }
len(m)
`

func TestC03ConcurrentMapWriteKillsProcess(t *testing.T) {
	if os.Getenv("C03_F2_CHILD") != "" {
		ctx, cancel := context.WithTimeout(context.Background(), 60*time.Second)
		defer cancel()
		v, err := risor.Eval(ctx, c03f2Script, risor.WithConcurrency())
		t.Logf("returned normally: value %v, err %v", v, err)
		return
	}
	cmd := exec.Command(os.Args[0], "-test.run=^TestC03ConcurrentMapWriteKillsProcess$", "-test.v")
	cmd.Env = append(os.Environ(), "C03_F2_CHILD=1")
	out, err := cmd.CombinedOutput()
	if err != nil {
		s := string(out)
		if i := strings.Index(s, "fatal error"); i >= 0 {
			s = s[i:]
		}
		if len(s) > 900 {
			s = s[:900]
		}
		t.Fatalf("the embedding process died (%v):\n%s", err, s)
	}
}
