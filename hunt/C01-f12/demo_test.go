package risor_test

import (
	"context"
	"testing"

	"github.com/risor-io/risor"
)

func evalC01DefaultTemplate(src string) string {
	v, err := risor.Eval(context.Background(), src)
	if err != nil {
		return "ERR: " + err.Error()
	}
	return v.Inspect()
}

// A template string used as a parameter default must mean what the same
// literal means anywhere else (or be refused like the other defaults that are
// not constants, e.g. "b=-1" or "b=[]").
func TestC01HuntDefaultTemplate(t *testing.T) {
	// 1. escapes: the literal '{{}}' is the string "{}"
	got := evalC01DefaultTemplate(`func f(a='{{}}') { return a }; [f(), f('{{}}'), '{{}}']`)
	if want := `["{}", "{}", "{}"]`; got != want {
		t.Errorf("escaped braces in a default\n  want: %s\n  got:  %s", want, got)
	}
	// 2. interpolation: either the interpolated value or a compile error
	got = evalC01DefaultTemplate(`x := 1; func f(a='v{x}') { return a }; f()`)
	if got != `"v1"` && (len(got) < 4 || got[:4] != "ERR:") {
		t.Errorf("interpolation in a default\n  want: \"v1\" or a compile error\n  got:  %s", got)
	}
}
