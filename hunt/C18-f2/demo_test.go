package risor_test

// C18 finding 2: a goroutine started by an earlier input runs the functions it
// is handed by later inputs against a stale copy of the globals. Copy into the
// repository root (package directory of github.com/risor-io/risor) and run
//
//	go test -run 'TestC18F2' .
import (
	"context"
	"fmt"
	"strings"
	"testing"
	"time"

	"github.com/risor-io/risor"
	"github.com/risor-io/risor/compiler"
	"github.com/risor-io/risor/object"
	"github.com/risor-io/risor/parser"
	"github.com/risor-io/risor/vm"
)

// c18f2Session evaluates inputs exactly like cmd/risor/repl.getEvaluator. The
// risor command enables concurrency for the REPL (cmd/risor/options.go).
type c18f2Session struct {
	cfg *risor.Config
	c   *compiler.Compiler
	v   *vm.VirtualMachine
}

func (s *c18f2Session) eval(ctx context.Context, source string) (object.Object, error) {
	if s.cfg == nil {
		s.cfg = risor.NewConfig(risor.WithConcurrency())
	}
	if s.c == nil {
		var err error
		s.c, err = compiler.New(s.cfg.CompilerOpts()...)
		if err != nil {
			return nil, err
		}
	}
	ast, err := parser.Parse(ctx, source)
	if err != nil {
		return nil, fmt.Errorf("rejected by the parser: %w", err)
	}
	code, err := s.c.Compile(ast)
	if err != nil {
		return nil, fmt.Errorf("rejected by the compiler: %w", err)
	}
	if s.v == nil {
		s.v = vm.New(code, s.cfg.VMOpts()...)
	}
	if err := s.v.Run(ctx); err != nil {
		s.v.SetIP(code.InstructionCount())
		return nil, fmt.Errorf("failed at run time: %w", err)
	}
	result, ok := s.v.TOS()
	if !ok || result == nil {
		return object.Nil, nil
	}
	return result, nil
}

func c18f2Run(t *testing.T, pieces ...string) string {
	t.Helper()
	ctx, cancel := context.WithTimeout(context.Background(), 5*time.Second)
	defer cancel()
	var s c18f2Session
	var last object.Object
	for i, piece := range pieces {
		var err error
		last, err = s.eval(ctx, piece)
		if err != nil {
			t.Fatalf("piece %d of %d (%q): %s", i+1, len(pieces), piece, strings.Split(err.Error(), "\n")[0])
		}
	}
	return last.Inspect()
}

// A worker goroutine takes functions from a channel and calls them.
const c18f2Worker = `counter := 0
jobs := chan()
results := chan()
go func() {
	for {
		job := <-jobs
		v := job()
		results <- v
	}
}()`

// The job increments the global counter. The channels order everything:
// the main code reads counter only after the worker has sent the result.
const c18f2Job = `jobs <- func() { counter = counter + 1; return counter }
r := <-results
[r, counter]`

func TestC18F2_WorkerGoroutineWritesStaleGlobals(t *testing.T) {
	want := c18f2Run(t, c18f2Worker+"\n"+c18f2Job) // whole program: [1, 1]
	got := c18f2Run(t, c18f2Worker, c18f2Job)      // the same program in two inputs
	if got != want {
		t.Fatalf("in two inputs the program ends with [r, counter] = %s, at once with %s", got, want)
	}
}

// The same with a global that is declared after the goroutine was started: the
// stale globals array of the goroutine is too short for it, the worker dies and
// the input waits for its result forever (until the context ends).
func TestC18F2_WorkerGoroutineDiesOnNewGlobal(t *testing.T) {
	worker := strings.Replace(c18f2Worker, "counter := 0\n", "", 1)
	want := c18f2Run(t, worker+"\ncounter := 0\n"+c18f2Job)
	got := c18f2Run(t, worker, "counter := 0", c18f2Job)
	if got != want {
		t.Fatalf("in three inputs the program ends with [r, counter] = %s, at once with %s", got, want)
	}
}
