package risor_test

import (
	"context"
	"testing"

	"github.com/risor-io/risor"
)

// evalC01VarMultiDeclares evaluates a program and renders the outcome: the inspected value,
// or "ERR: " followed by the error text.
func evalC01VarMultiDeclares(src string) string {
	v, err := risor.Eval(context.Background(), src)
	if err != nil {
		return "ERR: " + err.Error()
	}
	return v.Inspect()
}

func TestC01HuntVarMultiDeclares(t *testing.T) {
	cases := []struct{ name, src, want string }{
		{"var a, b declares at top level",
			`var a, b = [1, 2]; [a, b]`,
			`[1, 2]`},
		{"var a, b inside a function declares locals and leaves outer variables alone",
			`a := 1; b := 2; func f() { var a, b = [10, 20]; return [a, b] }; [f(), a, b]`,
			`[[10, 20], 1, 2]`},
		{"var a, b inside a block shadows",
			`a := 1; b := 2; if true { var a, b = [10, 20] }; [a, b]`,
			`[1, 2]`},
	}
	for _, c := range cases {
		got := evalC01VarMultiDeclares(c.src)
		if got != c.want {
			t.Errorf("%s\n  program: %s\n  want:    %s\n  got:     %s", c.name, c.src, c.want, got)
		}
	}
}
