package risor_test

import (
	"context"
	"strings"
	"testing"

	"github.com/risor-io/risor"
	"github.com/risor-io/risor/compiler"
	"github.com/risor-io/risor/parser"
)

// The symbol tables are marshalled as a nested tree (one "children" array per
// block), so the nesting depth of the JSON grows with the nesting depth of the
// program. encoding/json refuses to decode more than 10000 levels: the
// marshaller produces data that the unmarshaller rejects.
func TestC17F3DeepBlocksExceedJSONDepth(t *testing.T) {
	const depth = 5000
	ctx := context.Background()
	src := strings.Repeat("if true { ", depth) + "1" + strings.Repeat(" }", depth)

	prog, err := parser.Parse(ctx, src)
	if err != nil {
		t.Fatalf("parse: %v", err)
	}
	code, err := compiler.Compile(prog, risor.NewConfig().CompilerOpts()...)
	if err != nil {
		t.Fatalf("compile: %v", err)
	}
	want, err := risor.EvalCode(ctx, code)
	if err != nil {
		t.Fatalf("original code: %v", err)
	}
	if want.Inspect() != "1" {
		t.Fatalf("original code: unexpected result %s", want.Inspect())
	}
	data, err := compiler.MarshalCode(code)
	if err != nil {
		t.Fatalf("marshal: %v", err)
	}
	loaded, err := compiler.UnmarshalCode(data)
	if err != nil {
		t.Fatalf("original code gives %s, but UnmarshalCode rejects the %d bytes MarshalCode produced: %v",
			want.Inspect(), len(data), err)
	}
	got, err := risor.EvalCode(ctx, loaded)
	if err != nil {
		t.Fatalf("reloaded code: %v", err)
	}
	if got.Inspect() != want.Inspect() {
		t.Fatalf("original code gives %s, reloaded code gives %s", want.Inspect(), got.Inspect())
	}
}
