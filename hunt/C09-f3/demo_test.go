package risor_test

import (
	"context"
	"sync"
	"testing"

	"github.com/risor-io/risor"
)

func TestC09F3HttpHandleGlobalMux(t *testing.T) {
	src := `http.handle("/hunt-c09", func(w, r) { return "ok" }); 42`
	var wg sync.WaitGroup
	errs := make([]error, 2)
	res := make([]string, 2)
	for i := 0; i < 2; i++ {
		wg.Add(1)
		go func(i int) {
			defer wg.Done()
			r, err := risor.Eval(context.Background(), src, risor.WithListenersAllowed(), risor.WithConcurrency())
			errs[i] = err
			if r != nil {
				res[i] = r.Inspect()
			}
		}(i)
	}
	wg.Wait()
	for i := 0; i < 2; i++ {
		if errs[i] != nil || res[i] != "42" {
			t.Errorf("evaluation %d: result %q error %v", i, res[i], errs[i])
		}
	}
}
