package risor_test

import (
	"context"
	"fmt"
	"sort"
	"strings"
	"testing"

	"github.com/risor-io/risor"
)

type c05f2Point struct {
	A int
	B int
}

type c05f2Service struct{}

// Sum takes a Go map: the Risor map argument goes through MapConverter.To
func (s *c05f2Service) Sum(m map[string]int) int { return len(m) }

// Norm takes a Go struct: a Risor map argument goes through StructConverter.To
func (s *c05f2Service) Norm(p c05f2Point) int { return p.A + p.B }

// Bad returns a Go map with two values that have no Risor counterpart: the
// result goes through MapConverter.From
func (s *c05f2Service) Bad() map[string]any {
	return map[string]any{"a": struct{ X func() }{}, "b": complex(1, 2)}
}

func c05f2Outcomes(t *testing.T, source string) map[string]int {
	t.Helper()
	ctx := context.Background()
	seen := map[string]int{}
	for i := 0; i < 300; i++ {
		res, err := risor.Eval(ctx, source, risor.WithGlobal("svc", &c05f2Service{}))
		if err != nil {
			seen["error: "+err.Error()]++
		} else {
			seen["value: "+res.Inspect()]++
		}
	}
	return seen
}

func c05f2Check(t *testing.T, source string) {
	t.Helper()
	seen := c05f2Outcomes(t, source)
	if len(seen) != 1 {
		var lines []string
		for msg, n := range seen {
			lines = append(lines, fmt.Sprintf("  %s  (x%d)", msg, n))
		}
		sort.Strings(lines)
		t.Errorf("%s\ngave %d different outcomes in 300 evaluations:\n%s",
			source, len(seen), strings.Join(lines, "\n"))
	}
}

func TestC05F2ConversionErrorIsDeterministic(t *testing.T) {
	t.Run("map argument", func(t *testing.T) {
		c05f2Check(t, `svc.Sum({"a": "x", "b": [1]})`)
	})
	t.Run("struct argument", func(t *testing.T) {
		c05f2Check(t, `svc.Norm({"A": "x", "B": [1]})`)
	})
	t.Run("map result", func(t *testing.T) {
		c05f2Check(t, `svc.Bad()`)
	})
}
