package risor_test

import (
	"context"
	"testing"

	"github.com/risor-io/risor"
	"github.com/risor-io/risor/compiler"
	"github.com/risor-io/risor/parser"
)

// Incremental compilation into an existing code object with a new compiler
// (compiler.WithCode, "a situation like the REPL where compilation is done
// incrementally") numbers the functions from 1 again, so two functions of the
// code have the same id. The original code runs fine (functions point at their
// code directly), the reloaded code links functions to code by id.
func TestC17F2FunctionIDCollisionAfterIncrementalCompile(t *testing.T) {
	ctx := context.Background()
	cfg := risor.NewConfig()

	first, err := parser.Parse(ctx, `func f() { return "f" }`)
	if err != nil {
		t.Fatal(err)
	}
	code, err := compiler.Compile(first, cfg.CompilerOpts()...)
	if err != nil {
		t.Fatal(err)
	}
	second, err := parser.Parse(ctx, `func g() { return "g" }; f() + g()`)
	if err != nil {
		t.Fatal(err)
	}
	opts := append(cfg.CompilerOpts(), compiler.WithCode(code))
	code, err = compiler.Compile(second, opts...)
	if err != nil {
		t.Fatal(err)
	}

	want, err := risor.EvalCode(ctx, code)
	if err != nil {
		t.Fatalf("original code: %v", err)
	}
	if want.Inspect() != `"fg"` {
		t.Fatalf("original code: unexpected result %s", want.Inspect())
	}

	data, err := compiler.MarshalCode(code)
	if err != nil {
		t.Fatalf("marshal: %v", err)
	}
	loaded, err := compiler.UnmarshalCode(data)
	if err != nil {
		t.Fatalf("unmarshal: %v", err)
	}
	got, err := risor.EvalCode(ctx, loaded)
	if err != nil {
		t.Fatalf("original code gives %s, reloaded code fails: %v", want.Inspect(), err)
	}
	if got.Inspect() != want.Inspect() {
		t.Fatalf("original code gives %s, reloaded code gives %s", want.Inspect(), got.Inspect())
	}
}
