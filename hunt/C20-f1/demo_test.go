package parser_test

import (
	"context"
	"strings"
	"testing"

	"github.com/risor-io/risor/parser"
)

// Lexer errors that are raised before a token exists (unexpected character,
// invalid identifier, invalid decimal literal) must be located where the
// offending text is, and must quote that line.
func TestC20HuntF1LexerErrorLocation(t *testing.T) {
	cases := []struct {
		name     string
		src      string
		wantLine int
		wantCol  int
	}{
		// the offending character is on line 3, column 8
		{"unexpected character", "x := 1\ny := 2\nz := x ~ y\n", 3, 8},
		{"invalid identifier", "x := 1\ny := 2\nz := x ^ y\n", 3, 8},
		{"invalid decimal literal", "x := 1\ny := 2\nz := x + 3abc\n", 3, 10},
		{"leading zero", "x := 1\ny := 2\nz := x + 09\n", 3, 10},
		// first line is empty: "line 1, column 1" is not even a character of the source
		{"empty first line", "\nx := 1\ny := x ~ 2\n", 3, 8},
	}
	for _, tc := range cases {
		t.Run(tc.name, func(t *testing.T) {
			_, err := parser.Parse(context.Background(), tc.src)
			if err == nil {
				t.Fatalf("expected a syntax error for %q", tc.src)
			}
			pe, ok := err.(parser.ParserError)
			if !ok {
				t.Fatalf("expected a parser error, got %T", err)
			}
			lines := strings.Split(tc.src, "\n")
			gotLine := pe.StartPosition().LineNumber()
			gotCol := pe.StartPosition().ColumnNumber()
			t.Logf("message:\n%s", pe.FriendlyErrorMessage())
			if gotLine != tc.wantLine || gotCol != tc.wantCol {
				t.Errorf("%q: error %q located at %d:%d, the offending text is at %d:%d",
					tc.src, pe.Error(), gotLine, gotCol, tc.wantLine, tc.wantCol)
			}
			if want := lines[tc.wantLine-1]; pe.SourceCode() != want {
				t.Errorf("%q: quoted line %q, want %q", tc.src, pe.SourceCode(), want)
			}
			// the reported column has to be a character of the reported line
			if gotLine >= 1 && gotLine <= len(lines) {
				if n := len([]rune(lines[gotLine-1])); gotCol > n {
					t.Errorf("%q: reported column %d does not exist in reported line %d (%q, %d characters)",
						tc.src, gotCol, gotLine, lines[gotLine-1], n)
				}
			}
		})
	}
}
