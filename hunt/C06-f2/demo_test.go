package risor_test

import (
	"context"
	"errors"
	"testing"
	"time"

	"github.com/risor-io/risor"
)

// C06 f2: the error with which eval stops a halted VM is an ordinary,
// recoverable error for try(); when the try() call is the last thing the
// program does, nothing looks at the halt flag (or at ctx.Err()) any more and
// the cancelled evaluation reports success.
func TestC06F2_TrySwallowsCancellation(t *testing.T) {
	programs := []string{
		`try(func() { for { } }, 7)`,
		`try(func() { for { } })`,
		`try(func() { for { try(func() { time.sleep(1) }) } }, "done")`,
		`ch := chan(); try(func() { ch.receive() }, 7)`,
	}
	for _, src := range programs {
		ctx, cancel := context.WithTimeout(context.Background(), 30*time.Millisecond)
		start := time.Now()
		res, err := risor.Eval(ctx, src)
		elapsed := time.Since(start)
		cancel()
		if elapsed > 2*time.Second {
			t.Errorf("%q: not prompt: %v", src, elapsed)
		}
		if !errors.Is(err, context.DeadlineExceeded) {
			t.Errorf("%q under a 30ms deadline: got result %v, err %v; want err context.DeadlineExceeded",
				src, res, err)
		}
	}
}
