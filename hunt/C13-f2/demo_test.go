package os_test

import (
	"context"
	"os"
	"path/filepath"
	"testing"

	ros "github.com/risor-io/risor/os"
	"github.com/risor-io/risor/os/localfs"
)

// The virtual path <tmp>/<name> must be served by the mount that is the
// longest component-wise prefix of it, at the position <tmp>/<name> minus the
// mount point inside that mount's source. VirtualOS.MkdirTemp looks up the
// mount of the temp dir but throws the in-mount path away, so the directory is
// created in the ROOT of the mount and the virtual path that is returned does
// not exist.
func TestC13F2_VirtualMkdirTempCreatesAtMountRoot(t *testing.T) {
	base := t.TempDir()
	if err := os.MkdirAll(filepath.Join(base, "tmp"), 0o755); err != nil {
		t.Fatal(err)
	}
	lfs, err := localfs.New(context.Background(), localfs.WithBase(base))
	if err != nil {
		t.Fatal(err)
	}
	// One mount at /data, temp dir /data/tmp (a directory inside the mount).
	vos := ros.NewVirtualOS(context.Background(),
		ros.WithMounts(map[string]*ros.Mount{
			"/data": {Source: lfs, Target: "/data"},
		}),
		ros.WithTmp("/data/tmp"),
	)

	got, err := vos.MkdirTemp("", "x")
	if err != nil {
		t.Fatalf("MkdirTemp: %v", err)
	}
	t.Logf("MkdirTemp returned virtual path %s", got)

	rootEntries, _ := os.ReadDir(base)
	for _, e := range rootEntries {
		t.Logf("host: <base>/%s", e.Name())
	}
	tmpEntries, _ := os.ReadDir(filepath.Join(base, "tmp"))
	for _, e := range tmpEntries {
		t.Logf("host: <base>/tmp/%s", e.Name())
	}

	// 1. the returned path must exist in the virtual OS
	if _, err := vos.Stat(got); err != nil {
		t.Errorf("the directory MkdirTemp reported (%s) does not exist: %v", got, err)
	}
	// 2. it must have been created below <base>/tmp, i.e. /data/tmp
	if len(tmpEntries) != 1 {
		t.Errorf("expected exactly 1 entry in <base>/tmp (virtual /data/tmp), got %d", len(tmpEntries))
	}
	// 3. nothing else must appear in the root of the mount (virtual /data)
	if len(rootEntries) != 1 {
		t.Errorf("expected only 'tmp' in the mount root (virtual /data), got %d entries: the temp directory was created at /data/%s instead of %s",
			len(rootEntries), filepath.Base(got), got)
	}
}
