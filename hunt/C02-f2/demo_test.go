package risor_test

// Finding 2: every textual reference to a captured variable adds another entry
// to the function's free-variable list (the "already resolved as free" lookup in
// SymbolTable.Resolve never hits inside a function body). Creating the closure
// pushes one cell per entry onto the 1024-slot operand stack, so a function
// literal that mentions captured variables about a thousand times cannot be
// created at all: the program dies with a Go index-out-of-range panic.
//
// Copy into the repository root (package directory of github.com/risor-io/risor)
// and run:
//
//	go test -run 'TestC02F2' -v .

import (
	"context"
	"fmt"
	"strings"
	"testing"

	"github.com/risor-io/risor"
)

func TestC02F2_ManyReferencesToCapturedVariable(t *testing.T) {
	ctx := context.Background()
	for _, n := range []int{10, 500, 1100} {
		sum := strings.Repeat("x + ", n) + "0"

		// Control: the same body where x is a parameter of the function itself
		// (a plain local, nothing captured) works for every n.
		control := fmt.Sprintf("func a() { return func(x) { return %s } }\na()(1)", sum)
		res, err := risor.Eval(ctx, control)
		if err != nil || res.Inspect() != fmt.Sprint(n) {
			t.Fatalf("control n=%d: got %v, %v; want %d", n, res, err, n)
		}

		// x is a variable of the enclosing function: a closure
		src := fmt.Sprintf("func a() { x := 1; return func() { return %s } }\na()()", sum)
		res, err = risor.Eval(ctx, src)
		if err != nil {
			t.Errorf("n=%d references to the captured x: %v; want %d", n, err, n)
			continue
		}
		if res.Inspect() != fmt.Sprint(n) {
			t.Errorf("n=%d: got %s, want %d", n, res.Inspect(), n)
		}
	}
}

// The references do not have to be in one function: references in nested
// function literals are handed down through every function in between, and
// many different variables add up the same way.
func TestC02F2_ReferencesAddUpAcrossVariablesAndNesting(t *testing.T) {
	ctx := context.Background()
	var calls []string
	for i := 0; i < 300; i++ {
		calls = append(calls, "add(p); add(q); mul(r, s)")
	}
	src := `
func script() {
  total := 0
  p := 1; q := 2; r := 3; s := 4
  add := func(v) { total += v }
  mul := func(v, w) { total += v * w }
  run := func() {
    ` + strings.Join(calls, "\n    ") + `
    return total
  }
  return run()
}
script()
`
	res, err := risor.Eval(ctx, src)
	want := fmt.Sprint(300 * (1 + 2 + 12))
	if err != nil {
		t.Fatalf("%v; want %s", err, want)
	}
	if res.Inspect() != want {
		t.Fatalf("got %s, want %s", res.Inspect(), want)
	}
}
