package risor_test

// C14 finding f1: the from-import fallback swallows every error of the
// sub-module import - also a runtime error of the sub-module's top-level code
// and the import cycle error - so a module's top-level code runs more than
// once within one successful evaluation, and two importers of the same
// from-import spelling get different things.
//
// Copy into the repository root (package risor_test) and run
//   go test -run 'TestC14F1' -v .

import (
	"context"
	"os"
	"path/filepath"
	"strings"
	"sync"
	"testing"

	"github.com/risor-io/risor"
	"github.com/risor-io/risor/object"
)

type c14f1Log struct {
	mu      sync.Mutex
	entries []string
}

func (l *c14f1Log) builtin() *object.Builtin {
	return object.NewBuiltin("note", func(ctx context.Context, args ...object.Object) object.Object {
		l.mu.Lock()
		defer l.mu.Unlock()
		var parts []string
		for _, a := range args {
			parts = append(parts, a.Inspect())
		}
		l.entries = append(l.entries, strings.Join(parts, " "))
		return object.Nil
	})
}

func (l *c14f1Log) count(entry string) int {
	l.mu.Lock()
	defer l.mu.Unlock()
	n := 0
	for _, e := range l.entries {
		if e == entry {
			n++
		}
	}
	return n
}

func c14f1Root(t *testing.T, files map[string]string) string {
	t.Helper()
	root := t.TempDir()
	for name, src := range files {
		p := filepath.Join(root, name)
		if err := os.MkdirAll(filepath.Dir(p), 0o755); err != nil {
			t.Fatal(err)
		}
		if err := os.WriteFile(p, []byte(src), 0o644); err != nil {
			t.Fatal(err)
		}
	}
	return root
}

// One from-import statement names the sub-module a/b twice (under two
// aliases). The top-level code of a/b.risor ends with a runtime error. The
// statement succeeds, nothing is reported, and the top-level code of a/b ran
// twice.
func TestC14F1FallbackRunsModuleTwice(t *testing.T) {
	root := c14f1Root(t, map[string]string{
		"a.risor":   "note(\"a\")\nb := \"attribute b of a\"\n",
		"a/b.risor": "note(\"a/b\")\nerror(\"boom in a/b\")\n",
	})
	log := &c14f1Log{}
	res, err := risor.Eval(context.Background(),
		"from a import b, b as c\n[b, c]",
		risor.WithLocalImporter(root),
		risor.WithGlobal("note", log.builtin()))
	t.Logf("result=%v err=%v log=%v", res, err, log.entries)
	if n := log.count(`"a/b"`); n > 1 {
		t.Fatalf("top-level code of module a/b ran %d times within one evaluation (err=%v, result=%v)", n, err, res)
	}
}

// The same, with the two imports in two statements of two different importers
// (the script and module c).
func TestC14F1FallbackRunsModuleTwiceTwoImporters(t *testing.T) {
	root := c14f1Root(t, map[string]string{
		"a.risor":   "note(\"a\")\nb := \"attribute b of a\"\n",
		"a/b.risor": "note(\"a/b\")\nerror(\"boom in a/b\")\n",
		"c.risor":   "from a import b\n",
	})
	log := &c14f1Log{}
	res, err := risor.Eval(context.Background(),
		"from a import b\nimport c\nb",
		risor.WithLocalImporter(root),
		risor.WithGlobal("note", log.builtin()))
	t.Logf("result=%v err=%v log=%v", res, err, log.entries)
	if n := log.count(`"a/b"`); n > 1 {
		t.Fatalf("top-level code of module a/b ran %d times within one evaluation (err=%v, result=%v)", n, err, res)
	}
}

// The script and module c both say "from a import b". a/b imports c, so the
// import in c is re-entrant: the import cycle error is swallowed by the
// fallback and c silently gets the attribute b of a.risor, while the script
// gets the module a/b. Either an error or the same object for both importers
// would be in line with the property.
func TestC14F1FallbackHidesCycleImportersDisagree(t *testing.T) {
	root := c14f1Root(t, map[string]string{
		"a.risor":   "b := \"attribute b of a\"\n",
		"a/b.risor": "import c\nstate := 1\n",
		"c.risor":   "from a import b\nseen := b\n",
	})
	res, err := risor.Eval(context.Background(),
		"from a import b\nimport c\n[type(b), type(c.seen)]",
		risor.WithLocalImporter(root))
	t.Logf("result=%v err=%v", res, err)
	if err != nil {
		return // an import cycle error is fine
	}
	list, ok := res.(*object.List)
	if !ok || len(list.Value()) != 2 {
		t.Fatalf("unexpected result %v", res)
	}
	mainSees := list.Value()[0].Inspect()
	cSees := list.Value()[1].Inspect()
	if mainSees != cSees {
		t.Fatalf("'from a import b' bound a %s in the script but a %s in module c, without any error", mainSees, cSees)
	}
}
