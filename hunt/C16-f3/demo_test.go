package risor_test

import (
	"context"
	"testing"

	"github.com/risor-io/risor"
)

// "copies and slices are independent of the original": writing into a slice of a
// byte_slice (or float_slice) must not change the container it was cut from,
// exactly as for lists.
func TestC16F3ByteSliceSliceIsIndependent(t *testing.T) {
	cases := []struct{ src, want string }{
		// reference behaviour: lists
		{`l := [1, 2, 3]; c := l[0:2]; c[0] = 9; [l, c]`, `[[1, 2, 3], [9, 2]]`},
		// byte_slice: write through the slice
		{`b := byte_slice("abc"); c := b[0:2]; c[0] = "x"; [b, c]`,
			`[byte_slice("abc"), byte_slice("xb")]`},
		// byte_slice: the "copy" idiom b[:]
		{`b := byte_slice("abc"); c := b[:]; c[1] = "x"; string(b)`, `"abc"`},
		// and the other direction: write to the original, observe the slice
		{`b := byte_slice("abc"); c := b[1:3]; b[1] = "x"; string(c)`, `"bc"`},
		// float_slice shares the mechanism
		{`b := float_slice([1, 2, 3]); c := b[0:2]; c[0] = 9.5; b[0]`, `1`},
	}
	for _, c := range cases {
		res, err := risor.Eval(context.Background(), c.src)
		if err != nil {
			t.Errorf("%s\n  unexpected error: %v", c.src, err)
			continue
		}
		if got := res.Inspect(); got != c.want {
			t.Errorf("%s\n  got  %s\n  want %s", c.src, got, c.want)
		}
	}
}
