package os_test

import (
	"context"
	"os"
	"path/filepath"
	"testing"

	ros "github.com/risor-io/risor/os"
	"github.com/risor-io/risor/os/localfs"
)

// Relative paths are resolved against the working directory. A relative
// argument to Chdir (os.chdir("sub") / cd("sub") in a script) replaces the
// working directory by the raw string instead of joining it with the current
// one, so afterwards every relative path resolves to a non-absolute string
// that lies under no mount point and is refused - although the path it names
// (/data/sub/f.txt) lies under mount /data.
func TestC13F4_RelativeChdirLosesTheMount(t *testing.T) {
	base := t.TempDir()
	if err := os.MkdirAll(filepath.Join(base, "sub"), 0o755); err != nil {
		t.Fatal(err)
	}
	if err := os.WriteFile(filepath.Join(base, "sub", "f.txt"), []byte("hello"), 0o644); err != nil {
		t.Fatal(err)
	}
	lfs, err := localfs.New(context.Background(), localfs.WithBase(base))
	if err != nil {
		t.Fatal(err)
	}
	vos := ros.NewVirtualOS(context.Background(), ros.WithMounts(map[string]*ros.Mount{
		"/data": {Source: lfs, Target: "/data"},
	}))

	if err := vos.Chdir("/data"); err != nil {
		t.Fatal(err)
	}
	// sanity: relative path from /data
	if data, err := vos.ReadFile("sub/f.txt"); err != nil || string(data) != "hello" {
		t.Fatalf("ReadFile(sub/f.txt) from /data = %q, %v", data, err)
	}

	if err := vos.Chdir("sub"); err != nil {
		t.Fatal(err)
	}
	wd, _ := vos.Getwd()
	if wd != "/data/sub" {
		t.Errorf("after Chdir(/data); Chdir(sub): Getwd() = %q, want /data/sub", wd)
	}
	data, err := vos.ReadFile("f.txt")
	if err != nil {
		t.Errorf("ReadFile(f.txt) in /data/sub: %v; want it served from mount /data as /sub/f.txt", err)
	} else if string(data) != "hello" {
		t.Errorf("ReadFile(f.txt) = %q", data)
	}
	if _, err := vos.ReadDir("."); err != nil {
		t.Errorf("ReadDir(.) in /data/sub: %v", err)
	}
}
