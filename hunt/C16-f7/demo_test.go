package risor_test

import (
	"context"
	"testing"

	"github.com/risor-io/risor"
)

// Strings are indexed by code point (len, s[i], s[i:j], range). The positions
// returned by s.index() / s.last_index() must be usable as such indices.
func TestC16F7StringIndexIsACodePointIndex(t *testing.T) {
	cases := []struct{ src, want string }{
		// ASCII: fine
		{`s := "hello"; s[s.index("o")]`, `"o"`},
		// one two-byte code point before the match
		{`s := "héllo"; s[s.index("o")]`, `"o"`},
		{`s := "héllo"; i := s.index("llo"); s[i:]`, `"llo"`},
		{`s := "héllo"; s[:s.index("l")]`, `"hé"`},
		{`s := "héllo wörld"; s[s.last_index("l")]`, `"l"`},
		// the index agrees with the one the range loop reports
		{`s := "añb"; at := -1; for i, c := range s { if c == "b" { at = i } }; [at, s.index("b")]`, `[2, 2]`},
	}
	for _, c := range cases {
		res, err := risor.Eval(context.Background(), c.src)
		if err != nil {
			t.Errorf("%s\n  unexpected error: %v", c.src, err)
			continue
		}
		if got := res.Inspect(); got != c.want {
			t.Errorf("%s\n  got  %s\n  want %s", c.src, got, c.want)
		}
	}
}
