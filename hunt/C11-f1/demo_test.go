package risor_test

import (
	"context"
	"errors"
	"testing"

	"github.com/risor-io/risor"
	"github.com/risor-io/risor/object"
)

// A value that is accepted as a top-level global ([]int) is silently not
// installed when it overrides a module member: the script keeps the original.
func TestC11F1_DottedOverrideSilentlyIgnored(t *testing.T) {
	ctx := context.Background()

	// Control: the same value is fine as a top-level override
	res, err := risor.Eval(ctx, `args`, risor.WithGlobalOverride("args", []int{1, 2}))
	if err != nil || res.Inspect() != "[1, 2]" {
		t.Fatalf("control failed: res=%v err=%v", res, err)
	}

	res, err = risor.Eval(ctx, `os.args`, risor.WithGlobalOverride("os.args", []int{1, 2}))
	if err != nil {
		return // a loud configuration error would be acceptable
	}
	if res.Inspect() != "[1, 2]" {
		t.Fatalf("WithGlobalOverride(\"os.args\", []int{1,2}): no error, but the script observes %s instead of the replacement", res.Inspect())
	}
}

// One unconvertible override makes init stop: a perfectly valid override of
// ANOTHER member that sorts after it is dropped as well, without any error.
func TestC11F1_ValidOverrideDroppedAfterBadOne(t *testing.T) {
	ctx := context.Background()
	t.Setenv("C11_SECRET", "real-secret")
	fake := object.NewBuiltin("getenv", func(ctx context.Context, args ...object.Object) object.Object {
		return object.NewString("FAKE")
	})
	res, err := risor.Eval(ctx, `os.getenv("C11_SECRET")`,
		risor.WithGlobalOverride("os.args", []int{}), // not convertible by FromGoType
		risor.WithGlobalOverride("os.getenv", fake),  // valid
	)
	if err != nil {
		return // a loud configuration error would be acceptable
	}
	if got := res.Inspect(); got != `"FAKE"` {
		t.Fatalf("os.getenv was overridden with a fake, no error was reported, yet the script observes %s", got)
	}
}

// Members that are error values (os.err_not_exist, ...) can never be
// overridden: an *object.Error replacement is taken for a conversion failure.
func TestC11F1_ErrorValuedMember(t *testing.T) {
	ctx := context.Background()
	repl := object.NewError(errors.New("replacement")).WithRaised(false)
	res, err := risor.Eval(ctx, `string(os.err_not_exist)`,
		risor.WithGlobalOverride("os.err_not_exist", repl))
	if err != nil {
		return
	}
	if got := res.Inspect(); got != `"replacement"` {
		t.Fatalf("os.err_not_exist was overridden, no error was reported, yet the script observes %s", got)
	}
}
