package risor_test

import (
	"context"
	"testing"

	"github.com/risor-io/risor"
)

// evalC01MapDuplicateKey evaluates a program and renders the outcome: the inspected value,
// or "ERR: " followed by the error text.
func evalC01MapDuplicateKey(src string) string {
	v, err := risor.Eval(context.Background(), src)
	if err != nil {
		return "ERR: " + err.Error()
	}
	return v.Inspect()
}

func TestC01HuntMapDuplicateKey(t *testing.T) {
	cases := []struct{ name, src, want string }{
		{"a later duplicate key wins (compileMap: entries are evaluated in source order, a later duplicate key wins)",
			`{"a": 1, "a": 2}`,
			`{"a": 2}`},
		{"same as storing the entries one after the other",
			`m := {}; m["a"] = 1; m["a"] = 2; m == {"a": 1, "a": 2}`,
			`true`},
		{"with side effects: both values are evaluated, the last one stays",
			`log := []; func t(x) { log.append(x); return x }; m := {k: t(1), k: t(2)}; [m, log]`,
			`[{"k": 2}, [1, 2]]`},
	}
	for _, c := range cases {
		got := evalC01MapDuplicateKey(c.src)
		if got != c.want {
			t.Errorf("%s\n  program: %s\n  want:    %s\n  got:     %s", c.name, c.src, c.want, got)
		}
	}
}
