package risor_test

// C12 finding f3: the OS given with risor.WithOS / vm.WithOS is ignored
// whenever the context already carries an OS - and every running VM puts one
// into the context it hands to builtins, even when the host never supplied
// any (the SimpleOS fallback, i.e. the real operating system). A host builtin
// that evaluates a script with WithOS(sandboxOS), passing on the context it
// was called with, therefore runs that script against the real OS.
//
// Copy into the repository root (package directory of github.com/risor-io/risor)
// and run:  go test -run 'TestC12F3' .

import (
	"context"
	"io"
	goos "os"
	"testing"

	"github.com/risor-io/risor"
	"github.com/risor-io/risor/object"
	ros "github.com/risor-io/risor/os"
)

func f3CaptureRealStdout(t *testing.T, fn func()) string {
	t.Helper()
	orig := goos.Stdout
	r, w, err := goos.Pipe()
	if err != nil {
		t.Fatal(err)
	}
	goos.Stdout = w
	done := make(chan string)
	go func() {
		b, _ := io.ReadAll(r)
		done <- string(b)
	}()
	func() {
		defer func() { goos.Stdout = orig }()
		fn()
	}()
	w.Close()
	return <-done
}

func TestC12F3_WithOSIgnoredInsideBuiltinContext(t *testing.T) {
	t.Setenv("C12_F3_VAR", "REAL")

	sandboxOut := ros.NewBufferFile(nil)
	sandboxOS := ros.NewVirtualOS(context.Background(),
		ros.WithStdout(sandboxOut),
		ros.WithPid(4242),
		ros.WithEnvironment(map[string]string{"C12_F3_VAR": "virtual"}))

	// A host function: run untrusted code against the sandbox OS. It passes on
	// the context it receives, as Go code should (cancellation, deadlines).
	sandbox := object.NewBuiltin("sandbox", func(ctx context.Context, args ...object.Object) object.Object {
		src, errObj := object.AsString(args[0])
		if errObj != nil {
			return errObj
		}
		res, err := risor.Eval(ctx, src, risor.WithOS(sandboxOS))
		if err != nil {
			return object.NewError(err)
		}
		return res
	})

	inner := `print("inner-print"); os.getenv("C12_F3_VAR") + "|" + string(os.getpid())`

	// Sanity: called directly with a plain context, WithOS works.
	direct := sandbox.Call(context.Background(), object.NewString(inner))
	if got, want := direct.Inspect(), `"virtual|4242"`; got != want {
		t.Fatalf("direct call: got %s, want %s", got, want)
	}
	if got, want := string(sandboxOut.Bytes()), "inner-print\n"; got != want {
		t.Fatalf("direct call: sandbox stdout %q, want %q", got, want)
	}

	// The trusted outer script (the host supplied no OS for it) calls the
	// host function.
	var res object.Object
	var err error
	real := f3CaptureRealStdout(t, func() {
		res, err = risor.Eval(context.Background(), `sandbox(SRC)`,
			risor.WithGlobal("sandbox", sandbox), risor.WithGlobal("SRC", inner))
	})
	if err != nil {
		t.Fatal(err)
	}
	if got, want := res.Inspect(), `"virtual|4242"`; got != want {
		t.Errorf("sandboxed script saw getenv|getpid = %s, want %s (values of the OS given with WithOS)", got, want)
	}
	if got, want := string(sandboxOut.Bytes()), "inner-print\ninner-print\n"; got != want {
		t.Errorf("sandbox stdout received %q, want %q", got, want)
	}
	if real != "" {
		t.Errorf("real process stdout received %q, want nothing", real)
	}
}
