package risor_test

import (
	"context"
	"testing"

	"github.com/risor-io/risor"
)

// A map literal is a sequence of "set key" operations in source order: for a key
// written twice the LAST value stays (as with m[k] = v twice, map([[k, v], ...]) and
// m.update()).
func TestC16F8MapLiteralDuplicateKey(t *testing.T) {
	cases := []struct{ src, want string }{
		// the other ways of building the same map: last one wins
		{`m := {}; m["a"] = 1; m["a"] = 2; m`, `{"a": 2}`},
		{`map([["a", 1], ["a", 2]])`, `{"a": 2}`},
		// the literal
		{`{"a": 1, "a": 2}`, `{"a": 2}`},
		{`{"a": 1, "b": 5, "a": 2, "a": 3}`, `{"a": 3, "b": 5}`},
		// the values are evaluated in source order (1 then 2), only the result is reversed
		{`n := []; f := func(x) { n.append(x); return x }; m := {"k": f(1), "k": f(2)}; [n, m]`, `[[1, 2], {"k": 2}]`},
	}
	for _, c := range cases {
		res, err := risor.Eval(context.Background(), c.src)
		if err != nil {
			t.Errorf("%s\n  unexpected error: %v", c.src, err)
			continue
		}
		if got := res.Inspect(); got != c.want {
			t.Errorf("%s\n  got  %s\n  want %s", c.src, got, c.want)
		}
	}
}
