package risor_test

import (
	"context"
	"testing"

	"github.com/risor-io/risor"
	"github.com/risor-io/risor/object"
)

func c15f1Eval(t *testing.T, src string) string {
	t.Helper()
	v, err := risor.Eval(context.Background(), src)
	if err != nil {
		return "error: " + err.Error()
	}
	return v.Inspect()
}

// == must be symmetric and != its exact negation, for all script values.
func TestC15F1_ByteSliceStringEqualityNotSymmetric(t *testing.T) {
	ab := c15f1Eval(t, `byte_slice("abc") == "abc"`)
	ba := c15f1Eval(t, `"abc" == byte_slice("abc")`)
	if ab != ba {
		t.Errorf(`== not symmetric: byte_slice("abc") == "abc" is %s but "abc" == byte_slice("abc") is %s`, ab, ba)
	}
	nab := c15f1Eval(t, `byte_slice("abc") != "abc"`)
	nba := c15f1Eval(t, `"abc" != byte_slice("abc")`)
	if nab != nba {
		t.Errorf(`!= not symmetric: byte_slice("abc") != "abc" is %s but "abc" != byte_slice("abc") is %s`, nab, nba)
	}
	// the asymmetry is inherited by lists (a listed type of the property)
	lab := c15f1Eval(t, `[byte_slice("abc")] == ["abc"]`)
	lba := c15f1Eval(t, `["abc"] == [byte_slice("abc")]`)
	if lab != lba {
		t.Errorf(`list == not symmetric: [byte_slice("abc")] == ["abc"] is %s but ["abc"] == [byte_slice("abc")] is %s`, lab, lba)
	}
	// ... and list membership (Equals(item_of_list, x)) disagrees with list.index (Equals(x, item_of_list))
	in := c15f1Eval(t, `byte_slice("abc") in ["abc"]`)
	idx := c15f1Eval(t, `["abc"].index(byte_slice("abc"))`)
	if in == "false" && idx != "-1" {
		t.Errorf(`byte_slice("abc") in ["abc"] is %s but ["abc"].index(byte_slice("abc")) is %s`, in, idx)
	}
	// the same at the object API
	bs, s := object.NewByteSlice([]byte("abc")), object.NewString("abc")
	if bs.Equals(s) != s.Equals(bs) {
		t.Errorf("object API: ByteSlice.Equals(String)=%s, String.Equals(ByteSlice)=%s", bs.Equals(s).Inspect(), s.Equals(bs).Inspect())
	}
}
