package risor_test

import (
	"context"
	"testing"

	"github.com/risor-io/risor"
)

// evalC01InOperandOrder evaluates a program and renders the outcome: the inspected value,
// or "ERR: " followed by the error text.
func evalC01InOperandOrder(src string) string {
	v, err := risor.Eval(context.Background(), src)
	if err != nil {
		return "ERR: " + err.Error()
	}
	return v.Inspect()
}

func TestC01HuntInOperandOrder(t *testing.T) {
	cases := []struct{ name, src, want string }{
		{"in evaluates its left operand first",
			`log := []; func t(x) { log.append(x); return x }; r := t(1) in [t(2)]; log`,
			`[1, 2]`},
		{"not in evaluates its left operand first",
			`log := []; func t(x) { log.append(x); return x }; r := t(1) not in [t(2)]; log`,
			`[1, 2]`},
		{"the error of the left operand is the one that is raised",
			`func l() { error("left") }; func r() { error("right") }; l() in r()`,
			`ERR: left`},
	}
	for _, c := range cases {
		got := evalC01InOperandOrder(c.src)
		if got != c.want {
			t.Errorf("%s\n  program: %s\n  want:    %s\n  got:     %s", c.name, c.src, c.want, got)
		}
	}
}
