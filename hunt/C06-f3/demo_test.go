package sched_test

import (
	"context"
	"errors"
	"sync/atomic"
	"testing"
	"time"

	"github.com/risor-io/risor"
	"github.com/risor-io/risor/modules/sched"
	"github.com/risor-io/risor/object"
)

// C06 f3: script functions that run through the "clone-call" function
// (vm.cloneCallSync: sched.every / sched.once / sched.cron callbacks, http
// handlers) run on a clone that nothing ever halts, so they keep executing
// after the evaluation that started them has returned the context's error.
func TestC06F3_CloneCallKeepsRunningAfterCancel(t *testing.T) {
	var ticks int64
	tick := object.NewBuiltin("tick", func(ctx context.Context, args ...object.Object) object.Object {
		atomic.AddInt64(&ticks, 1)
		return object.Nil
	})
	ctx, cancel := context.WithTimeout(context.Background(), 100*time.Millisecond)
	defer cancel()
	start := time.Now()
	_, err := risor.Eval(ctx, `
		sched.once("10ms", func() { for { tick() } })
		for { }
	`, risor.WithConcurrency(), risor.WithGlobals(map[string]any{
		"sched": sched.Module(),
		"tick":  tick,
	}))
	if !errors.Is(err, context.DeadlineExceeded) {
		t.Fatalf("want context.DeadlineExceeded, got %v", err)
	}
	t.Logf("Eval returned %v after %v", err, time.Since(start))

	// Eval has returned the context's error: no script code may run any more.
	time.Sleep(100 * time.Millisecond)
	a := atomic.LoadInt64(&ticks)
	time.Sleep(200 * time.Millisecond)
	b := atomic.LoadInt64(&ticks)
	if b != a {
		t.Errorf("the function given to sched.once still runs after Eval returned %v: "+
			"%d more tick() calls in 200ms (total %d)", err, b-a, b)
	}
}
