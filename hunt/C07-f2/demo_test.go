package risor_test

// C07 finding f2: a Run / RunCode that fails in the top-level code leaves the
// operands of the interrupted statement on the operand stack. Nothing removes
// them before a following Call, which therefore runs with a smaller stack and
// fails (Go panic "index out of range [1024]") where the same Call succeeds
// after an invocation that ended normally.

import (
	"context"
	"fmt"
	"strings"
	"testing"

	"github.com/risor-io/risor/compiler"
	"github.com/risor-io/risor/object"
	"github.com/risor-io/risor/parser"
	"github.com/risor-io/risor/vm"
)

func c07f2Compile(t *testing.T, src string) *compiler.Code {
	t.Helper()
	ast, err := parser.Parse(context.Background(), src)
	if err != nil {
		t.Fatal(err)
	}
	code, err := compiler.Compile(ast)
	if err != nil {
		t.Fatal(err)
	}
	return code
}

// "[0, 1, ..., n-1, <last>]"
func c07f2List(n int, last string) string {
	var sb strings.Builder
	sb.WriteString("[")
	for i := 0; i < n; i++ {
		fmt.Fprintf(&sb, "%d, ", i)
	}
	sb.WriteString(last + "]")
	return sb.String()
}

const c07f2Sum = "func sum(n) { if n == 0 { return 0 }; return n + sum(n-1) }\n"

func c07f2CallSum(t *testing.T, v *vm.VirtualMachine, n int64) (object.Object, error) {
	t.Helper()
	obj, err := v.Get("sum")
	if err != nil {
		t.Fatal(err)
	}
	return v.Call(context.Background(), obj.(*object.Function), []object.Object{object.NewInt(n)})
}

// An ordinary runtime error in a long top-level expression, then a Call.
func TestC07F2_RuntimeError(t *testing.T) {
	ctx := context.Background()

	// Reference history: RunCode(normal), Call(sum, 500)
	ref, _ := vm.NewEmpty()
	if err := ref.RunCode(ctx, c07f2Compile(t, c07f2Sum+"x := "+c07f2List(600, "0"))); err != nil {
		t.Fatal(err)
	}
	want, err := c07f2CallSum(t, ref, 500)
	if err != nil {
		t.Fatalf("reference call failed: %v", err)
	}

	// History under test: RunCode(runtime error at depth 0), Call(sum, 500).
	// The only difference is the last list element, [1][5], an index error.
	v, _ := vm.NewEmpty()
	err = v.RunCode(ctx, c07f2Compile(t, c07f2Sum+"x := "+c07f2List(600, "[1][5]")))
	if err == nil {
		t.Fatal("expected an index error")
	}
	t.Logf("invocation 1 (expected to fail): %v", err)
	for i := 2; i <= 3; i++ {
		got, err := c07f2CallSum(t, v, 500)
		if err != nil {
			t.Errorf("invocation %d: Call(sum, 500) after the failed RunCode: %v (after a normal RunCode: %s)",
				i, err, want.Inspect())
		} else if got.Inspect() != want.Inspect() {
			t.Errorf("invocation %d: got %s want %s", i, got.Inspect(), want.Inspect())
		}
	}
}

// Operand-stack overflow in the top-level code (not inside a function): the
// stack stays completely full, so that even a trivial Call fails afterwards.
func TestC07F2_TopLevelOverflow(t *testing.T) {
	ctx := context.Background()
	v, _ := vm.NewEmpty()
	err := v.RunCode(ctx, c07f2Compile(t, "func one() { return 1 }\nx := "+c07f2List(1100, "0")))
	if err == nil {
		t.Fatal("expected the operand stack to overflow")
	}
	t.Logf("invocation 1 (expected to fail): %v", err)
	obj, err := v.Get("one")
	if err != nil {
		t.Fatal(err)
	}
	for i := 2; i <= 3; i++ {
		got, err := v.Call(ctx, obj.(*object.Function), nil)
		if err != nil {
			t.Errorf("invocation %d: Call(one) after the failed RunCode: %v (want 1)", i, err)
		} else if got.Inspect() != "1" {
			t.Errorf("invocation %d: got %s want 1", i, got.Inspect())
		}
	}
}

// The same with Run (REPL style) instead of RunCode.
func TestC07F2_Run(t *testing.T) {
	ctx := context.Background()
	main := c07f2Compile(t, c07f2Sum+"x := "+c07f2List(600, "[1][5]"))
	v := vm.New(main)
	if err := v.Run(ctx); err == nil {
		t.Fatal("expected an index error")
	}
	if got, err := c07f2CallSum(t, v, 500); err != nil {
		t.Errorf("Call(sum, 500) after the failed Run: %v (want 125250)", err)
	} else if got.Inspect() != "125250" {
		t.Errorf("got %s want 125250", got.Inspect())
	}
}
