package risor_test

// C12 finding f2: a function that a builtin calls back through the
// "clone-call" function (http.handle / http.listen_and_serve handlers,
// sched.once tasks) runs in a cloned VM whose context is NOT derived from the
// context of the evaluation. When the host supplied its OS in the context
// (os.WithOS(ctx, ...)), the clone does not see it and falls back to the real
// operating system.
//
// Copy into the repository root (package directory of github.com/risor-io/risor)
// and run:  go test -run 'TestC12F2' .
//
// No network is used: the handler is registered on http.DefaultServeMux and is
// driven with net/http/httptest.

import (
	"context"
	"io"
	"net/http"
	"net/http/httptest"
	goos "os"
	"testing"

	"github.com/risor-io/risor"
	ros "github.com/risor-io/risor/os"
)

func f2CaptureRealStdout(t *testing.T, fn func()) string {
	t.Helper()
	orig := goos.Stdout
	r, w, err := goos.Pipe()
	if err != nil {
		t.Fatal(err)
	}
	goos.Stdout = w
	done := make(chan string)
	go func() {
		b, _ := io.ReadAll(r)
		done <- string(b)
	}()
	func() {
		defer func() { goos.Stdout = orig }()
		fn()
	}()
	w.Close()
	return <-done
}

const f2Script = `
http.handle(PATTERN, func(w, r) {
	print("in-handler")
	return os.getenv("C12_F2_VAR") + "|" + string(os.getpid()) + "|" + os.getwd()
})
print("top-level")
`

func f2Serve(t *testing.T, pattern string) string {
	t.Helper()
	rec := httptest.NewRecorder()
	http.DefaultServeMux.ServeHTTP(rec, httptest.NewRequest("GET", pattern, nil))
	if rec.Code != 200 {
		t.Fatalf("handler status %d: %s", rec.Code, rec.Body.String())
	}
	return rec.Body.String()
}

func f2NewOS(ctx context.Context) (*ros.VirtualOS, *ros.BufferFile) {
	out := ros.NewBufferFile(nil)
	return ros.NewVirtualOS(ctx,
		ros.WithStdout(out),
		ros.WithPid(4242),
		ros.WithCwd("/virtual"),
		ros.WithEnvironment(map[string]string{"C12_F2_VAR": "virtual"})), out
}

// The OS is placed in the context: the handler escapes to the real OS.
func TestC12F2_HTTPHandler_ContextOS(t *testing.T) {
	t.Setenv("C12_F2_VAR", "REAL")
	vos, out := f2NewOS(context.Background())
	ctx := ros.WithOS(context.Background(), vos)

	var body string
	real := f2CaptureRealStdout(t, func() {
		if _, err := risor.Eval(ctx, f2Script,
			risor.WithListenersAllowed(), risor.WithConcurrency(),
			risor.WithGlobal("PATTERN", "/c12-f2-ctx")); err != nil {
			t.Fatal(err)
		}
		body = f2Serve(t, "/c12-f2-ctx")
	})

	if want := "virtual|4242|/virtual"; body != want {
		t.Errorf("handler saw getenv|getpid|getwd = %q, want %q (values of the host OS)", body, want)
	}
	if got, want := string(out.Bytes()), "top-level\nin-handler\n"; got != want {
		t.Errorf("host-supplied stdout received %q, want %q", got, want)
	}
	if real != "" {
		t.Errorf("real process stdout received %q, want nothing", real)
	}
}

// Control: the same program with the OS given through risor.WithOS is
// mediated correctly (this test passes).
func TestC12F2_HTTPHandler_WithOS_Control(t *testing.T) {
	t.Setenv("C12_F2_VAR", "REAL")
	vos, out := f2NewOS(context.Background())

	var body string
	real := f2CaptureRealStdout(t, func() {
		if _, err := risor.Eval(context.Background(), f2Script,
			risor.WithListenersAllowed(), risor.WithConcurrency(), risor.WithOS(vos),
			risor.WithGlobal("PATTERN", "/c12-f2-withos")); err != nil {
			t.Fatal(err)
		}
		body = f2Serve(t, "/c12-f2-withos")
	})
	if want := "virtual|4242|/virtual"; body != want {
		t.Errorf("handler saw %q, want %q", body, want)
	}
	if got, want := string(out.Bytes()), "top-level\nin-handler\n"; got != want {
		t.Errorf("host-supplied stdout received %q, want %q", got, want)
	}
	if real != "" {
		t.Errorf("real process stdout received %q, want nothing", real)
	}
}
