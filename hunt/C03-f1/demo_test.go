package risor_test

import (
	"context"
	"os"
	"os/exec"
	"strings"
	"testing"

	"github.com/risor-io/risor"
	"github.com/risor-io/risor/parser"
)

// A source text of one megabyte of "(" must make parser.Parse / risor.Eval
// return an error (or a value). Instead the recursive-descent parser recurses
// once per "(" with no depth limit and the Go runtime kills the process with
// "fatal error: stack overflow", which no recover() can intercept.
//
// The hostile input is handled in a child process (this same test binary) so
// that the parent can report the death of the child as an ordinary failure.
func TestC03DeepNestingKillsProcess(t *testing.T) {
	const depth = 1_000_000
	if mode := os.Getenv("C03_F1_CHILD"); mode != "" {
		src := strings.Repeat("(", depth) // 1 MB, never closed: a plain syntax error
		var err error
		if mode == "parse" {
			_, err = parser.Parse(context.Background(), src)
		} else {
			_, err = risor.Eval(context.Background(), src)
		}
		t.Logf("returned normally, err = %.80v", err)
		return
	}
	for _, mode := range []string{"parse", "eval"} {
		cmd := exec.Command(os.Args[0], "-test.run=^TestC03DeepNestingKillsProcess$", "-test.v")
		cmd.Env = append(os.Environ(), "C03_F1_CHILD="+mode)
		out, err := cmd.CombinedOutput()
		if err != nil {
			s := string(out)
			if i := strings.Index(s, "fatal error"); i >= 0 {
				s = s[i:]
			}
			if len(s) > 600 {
				s = s[:600]
			}
			t.Errorf("%s of %d x \"(\": the embedding process died (%v):\n%s", mode, depth, err, s)
		}
	}
}
