package os_test

import (
	"context"
	"errors"
	"io/fs"
	"testing"

	ros "github.com/risor-io/risor/os"
	"github.com/risor-io/risor/os/localfs"
)

// "..a" and "..." are ordinary file names, not the parent directory. A path
// whose first segment merely STARTS with two dots stays inside the base / the
// mount and has to be served from there. ResolvePath rejects "a leading '..'"
// with a string-prefix test on the cleaned path instead of a test on the first
// path component, so these names are refused as if they escaped - and only
// when they arrive in relative form: the very same file is served when the
// path has a leading separator, so whether "/..a" can be used in a virtual OS
// depends on whether the mount point is "/" (in-mount path "..a", refused) or
// anything else (in-mount path "/..a", served).
func TestC13F5_LeadingDotDotIsAStringPrefixTest(t *testing.T) {
	// 1. the shared resolver
	for _, p := range []string{"..a", "...", "..a/b", "a/../..a", "./..a"} {
		got, err := ros.ResolvePath("/base", p, "stat")
		if err != nil {
			t.Errorf("ResolvePath(/base, %q): %v; the path stays inside /base and must resolve", p, err)
		} else {
			t.Logf("ResolvePath(/base, %q) = %q", p, got)
		}
	}
	if got, err := ros.ResolvePath("/base", "/..a", "stat"); err != nil || got != "/base/..a" {
		t.Errorf("ResolvePath(/base, /..a) = %q, %v", got, err)
	}

	// 2. the rooted local filesystem
	ctx := context.Background()
	lfs, err := localfs.New(ctx, localfs.WithBase(t.TempDir()))
	if err != nil {
		t.Fatal(err)
	}
	if err := lfs.WriteFile("/..a", []byte("x"), 0o644); err != nil {
		t.Fatalf("WriteFile(/..a): %v", err)
	}
	if _, err := lfs.Stat("..a"); err != nil {
		t.Errorf("localfs Stat(..a): %v (is fs.ErrInvalid: %v); the file exists inside the base (Stat(/..a) finds it)",
			err, errors.Is(err, fs.ErrInvalid))
	}

	// 3. the same source mounted at "/" and at "/data"
	vos := ros.NewVirtualOS(ctx, ros.WithMounts(map[string]*ros.Mount{
		"/":     {Source: lfs, Target: "/"},
		"/data": {Source: lfs, Target: "/data"},
	}))
	if _, err := vos.Stat("/data/..a"); err != nil {
		t.Errorf("Stat(/data/..a): %v", err)
	}
	if _, err := vos.Stat("/..a"); err != nil {
		t.Errorf("Stat(/..a) via mount /: %v; the same file is served as /data/..a", err)
	}
}
