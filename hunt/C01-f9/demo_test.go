package risor_test

import (
	"context"
	"testing"

	"github.com/risor-io/risor"
)

// evalC01ForOmittedParts evaluates a program and renders the outcome: the inspected value,
// or "ERR: " followed by the error text.
func evalC01ForOmittedParts(src string) string {
	v, err := risor.Eval(context.Background(), src)
	if err != nil {
		return "ERR: " + err.Error()
	}
	return v.Inspect()
}

func TestC01HuntForOmittedParts(t *testing.T) {
	cases := []struct{ name, src, want string }{
		{"three-part loop without a condition",
			`x := 0; for i := 0; ; i++ { if i == 3 { break }; x += i }; x`,
			`3`},
		{"three-part loop without a post statement",
			`x := 0; for i := 0; i < 3; { x += i; i++ }; x`,
			`3`},
		{"three-part loop with neither",
			`i := 0; for ;; { i++; if i > 2 { break } }; i`,
			`3`},
		{"three-part loop without init works today",
			`i := 0; x := 0; for ; i < 3; i++ { x += i }; x`,
			`3`},
	}
	for _, c := range cases {
		got := evalC01ForOmittedParts(c.src)
		if got != c.want {
			t.Errorf("%s\n  program: %s\n  want:    %s\n  got:     %s", c.name, c.src, c.want, got)
		}
	}
}
