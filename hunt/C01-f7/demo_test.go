package risor_test

import (
	"context"
	"testing"

	"github.com/risor-io/risor"
)

// evalC01DivideByZero evaluates a program and renders the outcome: the inspected value,
// or "ERR: " followed by the error text.
func evalC01DivideByZero(src string) string {
	v, err := risor.Eval(context.Background(), src)
	if err != nil {
		return "ERR: " + err.Error()
	}
	return v.Inspect()
}

func TestC01HuntDivideByZero(t *testing.T) {
	cases := []struct{ name, src, want string }{
		{"try catches an integer division by zero like any other raised error",
			"try(func() { return 1 / 0 }, `caught`)",
			`"caught"`},
		{"try catches an integer modulo by zero",
			"try(func() { return 1 % 0 }, `caught`)",
			`"caught"`},
		{"same for an index error, which is caught today",
			"try(func() { return [1][5] }, `caught`)",
			`"caught"`},
		{"deferred calls run and the caller can go on",
			"log := []; func f() { defer func() { log.append(`d`) }(); return 1 / 0 }; r := try(f, `c`); [r, log]",
			`["c", ["d"]]`},
	}
	for _, c := range cases {
		got := evalC01DivideByZero(c.src)
		if got != c.want {
			t.Errorf("%s\n  program: %s\n  want:    %s\n  got:     %s", c.name, c.src, c.want, got)
		}
	}
}
