package risor_test

import (
	"context"
	"fmt"
	"sort"
	"strings"
	"testing"

	"github.com/risor-io/risor"
)

// Two distinct byte_slice members of a set whose contents became equal after
// they were added. keys(s) (and sorted(s), and the printed set) must list them
// in one fixed order; which of the two comes first is visible by writing
// through the first one.
func TestC05F6SetOrderWithEqualMutableMembers(t *testing.T) {
	const source = `
b1 := byte_slice([1])
b2 := byte_slice([2])
s := {b1, b2}
b2[0] = "\x01"        // b1 and b2 are still two members, now with equal contents
keys(s)[0][0] = "9"   // write through whichever member is listed first
[b1, b2]
`
	ctx := context.Background()
	seen := map[string]int{}
	for i := 0; i < 300; i++ {
		res, err := risor.Eval(ctx, source)
		if err != nil {
			t.Fatal(err)
		}
		seen[res.Inspect()]++
	}
	if len(seen) != 1 {
		var lines []string
		for msg, n := range seen {
			lines = append(lines, fmt.Sprintf("  %s  (x%d)", msg, n))
		}
		sort.Strings(lines)
		t.Fatalf("the same program gave %d different results in 300 evaluations:\n%s",
			len(seen), strings.Join(lines, "\n"))
	}
}
