package risor_test

import (
	"context"
	"fmt"
	osexec "os/exec"
	"sort"
	"strings"
	"testing"

	"github.com/risor-io/risor"
)

func c05f3Check(t *testing.T, source string) {
	t.Helper()
	ctx := context.Background()
	seen := map[string]int{}
	for i := 0; i < 200; i++ {
		res, err := risor.Eval(ctx, source)
		if err != nil {
			seen["error: "+err.Error()]++
		} else {
			seen["value: "+res.Inspect()]++
		}
	}
	if len(seen) != 1 {
		var lines []string
		for msg, n := range seen {
			lines = append(lines, fmt.Sprintf("  %s  (x%d)", msg, n))
		}
		sort.Strings(lines)
		t.Errorf("%s\ngave %d different outcomes in 200 evaluations:\n%s",
			source, len(seen), strings.Join(lines, "\n"))
	}
}

func TestC05F3ExecOptionsAreDeterministic(t *testing.T) {
	// No process is started here: the options are rejected first
	t.Run("unexpected keys", func(t *testing.T) {
		c05f3Check(t, `exec("true", [], {"foo": 1, "bar": 2})`)
	})
	// No process is started here either
	t.Run("env values of the wrong type", func(t *testing.T) {
		c05f3Check(t, `exec("true", [], {"env": {"AA": 1, "BB": 2.5}})`)
	})
	// The environment of the child process is built in map iteration order
	t.Run("order of the environment", func(t *testing.T) {
		if _, err := osexec.LookPath("env"); err != nil {
			t.Skip("no env program available")
		}
		c05f3Check(t, `exec("env", [], {"env": {"AA": "1", "BB": "2", "CC": "3"}}).stdout`)
	})
}
