package risor_test

// C14 finding f3 (judgment call, see README): a module whose top-level code
// failed is not remembered, so every later import statement for it runs its
// top-level code again within the same evaluation.
//
// Copy into the repository root (package risor_test) and run
//   go test -run 'TestC14F3' -v .

import (
	"context"
	"os"
	"path/filepath"
	"testing"

	"github.com/risor-io/risor"
	"github.com/risor-io/risor/object"
)

func TestC14F3FailedImportRunsAgain(t *testing.T) {
	root := t.TempDir()
	files := map[string]string{
		// shared state that survives the failed import of m
		"state.risor": "hits := []\nfunc hit(who) { hits.append(who); return len(hits) }\n",
		// fails the first time its top-level code runs, succeeds the second time
		"m.risor": "import state\nif state.hit(\"m\") == 1 { error(\"m: first run fails\") }\nready := true\n",
	}
	for name, src := range files {
		if err := os.WriteFile(filepath.Join(root, name), []byte(src), 0o644); err != nil {
			t.Fatal(err)
		}
	}
	res, err := risor.Eval(context.Background(), `
try(func() { import m }, func(e) { })
import m
import state
state.hits
`, risor.WithLocalImporter(root))
	if err != nil {
		t.Fatalf("unexpected error: %v", err)
	}
	hits, ok := res.(*object.List)
	if !ok {
		t.Fatalf("unexpected result %v", res)
	}
	if n := len(hits.Value()); n > 1 {
		t.Fatalf("top-level code of module m ran %d times within one evaluation: %s", n, hits.Inspect())
	}
}
