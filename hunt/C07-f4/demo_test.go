package risor_test

// C07 finding f4: RunCode clears the halt flag a second time (in
// resetForNewCode) AFTER start() has armed the context watcher of the current
// run. If the watcher fires in between (context already cancelled when RunCode
// is called, or cancelled right at its start), the cancellation of the CURRENT
// run is wiped out: the script is never stopped and RunCode returns nil error
// with the complete result although its context is cancelled. With
// "for { }" in the script RunCode would never return.
//
// The window is narrow, so the demo retries; background garbage collections
// (which any real host has) make the main goroutine pause inside the window
// often enough: typically the first hit comes within a few thousand attempts
// (about 1 in 700 here). Under "go test -race" the race detector additionally
// reports the unsynchronised write to vm.halt on the first attempt.

import (
	"context"
	"runtime"
	"testing"
	"time"

	"github.com/risor-io/risor/compiler"
	"github.com/risor-io/risor/parser"
	"github.com/risor-io/risor/vm"
)

func TestC07F4_LostCancellation(t *testing.T) {
	ast, err := parser.Parse(context.Background(), "n := 0; for i := 0; i < 1000000; i++ { n++ }; n")
	if err != nil {
		t.Fatal(err)
	}
	code, err := compiler.Compile(ast)
	if err != nil {
		t.Fatal(err)
	}

	// Some background garbage collection, as in any busy host process
	stop := make(chan struct{})
	defer close(stop)
	for g := 0; g < 2; g++ {
		go func() {
			for {
				select {
				case <-stop:
					return
				default:
					runtime.GC()
				}
			}
		}()
	}

	v, _ := vm.NewEmpty()
	const attempts = 200000
	deadline := time.Now().Add(4 * time.Minute)
	for k := 1; k <= attempts && time.Now().Before(deadline); k++ {
		ctx, cancel := context.WithCancel(context.Background())
		cancel() // the context of this invocation is cancelled
		t0 := time.Now()
		err := v.RunCode(ctx, code)
		if err == nil {
			result := "<no value>"
			if obj, ok := v.TOS(); ok {
				result = obj.Inspect()
			}
			t.Fatalf("attempt %d: RunCode with a cancelled context ran the whole loop (%v) and returned err=nil result=%s; want context.Canceled",
				k, time.Since(t0), result)
		}
		if err != context.Canceled {
			t.Fatalf("attempt %d: unexpected error %v", k, err)
		}
	}
	t.Log("cancellation was never lost in this run (the race window was not hit)")
}
