package risor_test

// C14 finding f2 (conditional, see README): a relative import root is resolved
// against the process working directory at every import, so a script that
// calls os.chdir moves the import root and loads code from a directory the
// host never configured.
//
// Copy into the repository root (package risor_test) and run
//   go test -run 'TestC14F2' -v .
//
// The test changes the working directory of the test process and restores it.

import (
	"context"
	"fmt"
	"os"
	"path/filepath"
	"strings"
	"testing"

	"github.com/risor-io/risor"
	"github.com/risor-io/risor/object"
)

func TestC14F2RelativeRootFollowsChdir(t *testing.T) {
	base := t.TempDir()
	files := map[string]string{
		"work/mods/a.risor":  "note(\"work/mods/a\")\n",
		"other/mods/b.risor": "note(\"other/mods/b\")\n", // NOT under the configured root
	}
	for name, src := range files {
		p := filepath.Join(base, name)
		if err := os.MkdirAll(filepath.Dir(p), 0o755); err != nil {
			t.Fatal(err)
		}
		if err := os.WriteFile(p, []byte(src), 0o644); err != nil {
			t.Fatal(err)
		}
	}
	old, err := os.Getwd()
	if err != nil {
		t.Fatal(err)
	}
	defer os.Chdir(old)
	if err := os.Chdir(filepath.Join(base, "work")); err != nil {
		t.Fatal(err)
	}

	var loaded []string
	note := object.NewBuiltin("note", func(ctx context.Context, args ...object.Object) object.Object {
		loaded = append(loaded, args[0].(*object.String).Value())
		return object.Nil
	})

	// The host configures the import root "mods", which is <base>/work/mods
	// when the evaluation starts.
	src := fmt.Sprintf("import a\nos.chdir(%q)\nimport b\n", filepath.Join(base, "other"))
	_, err = risor.Eval(context.Background(), src,
		risor.WithLocalImporter("mods"),
		risor.WithGlobal("note", note))
	t.Logf("err=%v loaded=%v", err, loaded)
	for _, name := range loaded {
		if strings.HasPrefix(name, "other/") {
			t.Fatalf("import b ran code from %s/other/mods/b.risor, which is not under the import root %s/work/mods configured as \"mods\"", base, base)
		}
	}
}
