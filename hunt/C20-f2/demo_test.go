package parser_test

import (
	"context"
	"testing"

	"github.com/risor-io/risor/parser"
)

// A block comment starts with "/*" and ends at the next "*/". The "*" of the
// opener cannot be the "*" of the closer, so "/*/ ... */" is one comment.
func TestC20HuntF2BlockCommentStartingWithSlash(t *testing.T) {
	parse := func(src string) (string, error) {
		prog, err := parser.Parse(context.Background(), src)
		if err != nil {
			return "", err
		}
		return prog.String(), nil
	}
	want, err := parse("x := 1 + 2")
	if err != nil {
		t.Fatal(err)
	}
	// 1. a comment between two tokens makes the program unparsable
	for _, src := range []string{
		"x := 1 /*/ note */ + 2",
		"x := 1 + /*/ note */ 2",
		"x := 1 + 2 /*/ note */",
		"/*////////////\n   banner\n////////////*/\nx := 1 + 2",
	} {
		got, err := parse(src)
		if err != nil {
			t.Errorf("%q: comment insertion made the program invalid: %v", src, err)
		} else if got != want {
			t.Errorf("%q: tree changed: got %q want %q", src, got, want)
		}
	}
	// 2. silent change of meaning: everything between "/*" and the closing
	// "*/" is a comment, so this is "x := 1"
	want1, _ := parse("x := 1\n")
	got, err := parse("x := 1 /*/ + 2 /*/\n")
	if err != nil {
		t.Errorf("unexpected error: %v", err)
	} else if got != want1 {
		t.Errorf("%q parses to %q, want %q (the text inside the comment became code)",
			"x := 1 /*/ + 2 /*/\n", got, want1)
	}
}
