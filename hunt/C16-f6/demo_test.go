package risor_test

import (
	"context"
	"testing"

	"github.com/risor-io/risor"
)

// Iterating a set (map) while removing a member that has not been visited yet:
// every member that is still in the container must be visited (reference model:
// iterate over a snapshot of the members, skipping the ones that are gone), or an
// error must be raised. Silently ending the loop early returns wrong data.
func TestC16F6IterationAfterRemoval(t *testing.T) {
	cases := []struct{ src, want string }{
		// set: 2 is removed while visiting 1; 3 is still a member and must be visited
		{`s := {1, 2, 3}; r := []; for x := range s { s.remove(2); r.append(x) }; [r, s]`, `[[1, 3], {1, 3}]`},
		{`s := {1, 2, 3}; n := 0; for x := range s { delete(s, 2); n += x }; n`, `4`},
		// the same through the iterator object
		{`s := {1, 2, 3}; it := iter(s); it.next(); s.remove(2); it.next()`, `3`},
		// map: same scenario must not crash inside the VM
		{`m := {"a": 1, "b": 2, "c": 3}; r := []; for k := range m { delete(m, "b"); r.append(k) }; r`, `["a", "c"]`},
	}
	for _, c := range cases {
		res, err := risor.Eval(context.Background(), c.src)
		if err != nil {
			t.Errorf("%s\n  unexpected error: %v", c.src, err)
			continue
		}
		if got := res.Inspect(); got != c.want {
			t.Errorf("%s\n  got  %s\n  want %s", c.src, got, c.want)
		}
	}
}
